(** C06 — lossy decode equals the encoder's own reconstruction (no drift).
    Only statements, each closed by [exact <lemma>] and followed by [Print Assumptions].
    The whole-frame statement is proved for the encoder data-path MODEL of Vp8NoDrift.v (choices =
    header, modes and quantised levels; bytes through the syntax emitter, the Go boolean-encoder model
    and assembleFrame's layout; reconstruction macroblock by macroblock from the encoder's own
    step sizes and kernels).  The model is tied to the Go encoder by execution: on every run the
    hook planes are compared with the extracted specification decoder. *)
From Coq Require Import List ZArith Bool.
From WebpGen Require Tables.
From Webp Require Import Base.Res Vp8.Vp8Bool Vp8.Vp8Tables Vp8.Vp8Syntax Vp8.Vp8Kernels Vp8.Vp8EncPath
  Vp8.Vp8ModeRT Vp8.Vp8Recon Vp8.Vp8Filter Vp8.Vp8Spec Vp8.Vp8FrameRT Vp8.Vp8NoDrift.
Import ListNotations.
Open Scope Z_scope.

(** The encoder's inverse transform on a reference block = the decoder's inverse DCT added
    to the prediction and clamped, for all coefficients and reference samples. *)
Theorem C06_itransform_eq_transform_partial : forall ref c,
  enc_itransform ref c = add_residual ref (idct c).
Proof. exact itransform_eq_transform. Qed.
Print Assumptions C06_itransform_eq_transform_partial.

(** The quantiser step sizes the encoder derives for a segment (setupSegment, incl. the
    kAcTable2 table and the 117 clip) are the dequantisation factors the specification
    derives from the header fields the encoder writes, for every index and every delta. *)
Theorem C06_enc_dequant_eq_dec_partial : forall qh q, enc_dq qh q = dq_of qh q.
Proof. exact enc_dequant_eq_dec. Qed.
Print Assumptions C06_enc_dequant_eq_dec_partial.

(** A skipped macroblock reconstructs to the prediction alone. *)
Theorem C06_skip_sound_partial : forall pred, length pred = 16%nat -> Forall (fun x => 0 <= x <= 255) pred ->
  idct (repeat 0 16) = repeat 0 16 /\ iwht (repeat 0 16) = repeat 0 16 /\
  add_residual pred (idct (repeat 0 16)) = pred.
Proof. exact skip_sound. Qed.
Print Assumptions C06_skip_sound_partial.

(** Every level magnitude up to 2114 (the encoder caps at 2047) has exactly one token. *)
Theorem C06_level_range_partial : forall a, 1 <= a <= 2114 -> length (level_leaves a) = 1%nat.
Proof. exact level_range. Qed.
Print Assumptions C06_level_range_partial.

(** One macroblock: the encoder-side reconstruction (raster levels, setupSegment step sizes,
    TransformWHT, ITransform onto the prediction, 4x4 blocks one after the other with the
    above-right rule of the shared work buffer) equals the decoder-side reconstruction of the
    syntax elements recorded for it, on the same neighbouring samples. *)
Theorem C06_enc_mb_eq_dec : forall h m e,
  enc_recon_mb h m e =
  recon_mb (ms_hdr m) (res_of (seg_dq h (mh_seg (ms_hdr m))) (mh_is4 (ms_hdr m)) (ms_y2 m) (ms_ys m) (ms_us m) (ms_vs m)) e.
Proof. exact enc_mb_eq_dec. Qed.
Print Assumptions C06_enc_mb_eq_dec.

(** No drift, whole frame: for every well-formed set of choices (wf_frame_syn: header fields in
    range, valid modes, levels within +-2114 with proper block ends, context shapes, probabilities
    bytes) in which only macroblocks without any level are skipped (choices_ok), and whose frame
    passes the encoder's size guards: the specification decoder reconstructs from the emitted
    bytes, before the loop filter, exactly the encoder's reconstruction, with the source's
    dimensions; with loop-filter level 0 the decoded picture is that reconstruction. *)
Theorem C06_no_drift : forall s bs, wf_frame_syn rfc_quirks s -> choices_ok (fs_rows s) ->
  fst (enc_frame s) = Ok bs ->
  decode_unfiltered bs = Ok (snd (enc_frame s)) /\
  (lf_level (fh_lf (fs_hdr s)) = 0 ->
   exists r, decode bs = Ok r /\ (dc_w r, dc_h r, dc_filtered r) = snd (enc_frame s)).
Proof. exact no_drift. Qed.
Print Assumptions C06_no_drift.

(** the hypotheses of C06_no_drift are met by a concrete frame, and its bytes exist *)
Theorem C06_no_drift_nonvacuous : wf_frame_syn rfc_quirks ex_frame /\ choices_ok (fs_rows ex_frame) /\
  exists bs, emit_key_frame rfc_quirks ex_frame = Ok bs.
Proof. exact ex_frame_wf. Qed.
Print Assumptions C06_no_drift_nonvacuous.
