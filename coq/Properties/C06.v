(** C06 — lossy decode equals the encoder's own reconstruction (no drift).
    Only statements, each closed by [exact <lemma>] and followed by [Print Assumptions].
    The whole-frame statement [no_drift_statement] (Vp8EncPath.v) is not proved: it is
    evaluated on every run by executing the extracted specification decoder on the
    encoder's output and comparing with the encoder's reconstruction planes. *)
From Coq Require Import List ZArith Bool.
From WebpGen Require Tables.
From Webp Require Import Vp8.Vp8Bool Vp8.Vp8Tables Vp8.Vp8Syntax Vp8.Vp8Kernels Vp8.Vp8EncPath.
Import ListNotations.
Open Scope Z_scope.

(** The encoder's inverse transform on a reference block = the decoder's inverse DCT added
    to the prediction and clamped, for all coefficients and reference samples. *)
Theorem C06_itransform_eq_transform_partial : forall ref c,
  enc_itransform ref c = add_residual ref (idct c).
Proof. exact itransform_eq_transform. Qed.
Print Assumptions C06_itransform_eq_transform_partial.

(** The quantiser step sizes the encoder derives for a segment (setupSegment, incl. the
    kAcTable2 table and the 117 clip) are the dequantisation factors the specification
    derives from the header fields the encoder writes, for every index and every delta. *)
Theorem C06_enc_dequant_eq_dec_partial : forall qh q, enc_dq qh q = dq_of qh q.
Proof. exact enc_dequant_eq_dec. Qed.
Print Assumptions C06_enc_dequant_eq_dec_partial.

(** A skipped macroblock reconstructs to the prediction alone. *)
Theorem C06_skip_sound_partial : forall pred, length pred = 16%nat -> Forall (fun x => 0 <= x <= 255) pred ->
  idct (repeat 0 16) = repeat 0 16 /\ iwht (repeat 0 16) = repeat 0 16 /\
  add_residual pred (idct (repeat 0 16)) = pred.
Proof. exact skip_sound. Qed.
Print Assumptions C06_skip_sound_partial.

(** Every level magnitude up to 2114 (the encoder caps at 2047) has exactly one token. *)
Theorem C06_level_range_partial : forall a, 1 <= a <= 2114 -> length (level_leaves a) = 1%nat.
Proof. exact level_range. Qed.
Print Assumptions C06_level_range_partial.
