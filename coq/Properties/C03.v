(** C03 — VP8L decoding returns the pixels the format defines for every valid
    stream.  Only statements, each closed by [exact <lemma>] and followed by
    [Print Assumptions]. *)
From Coq Require Import List ZArith.
From Webp Require Import Base.Res Vp8l.Vp8lPixel Vp8l.Vp8lArr Vp8l.Vp8lPrefix Vp8l.Vp8lTransforms Vp8l.Vp8lSpec.
Import ListNotations.
Open Scope Z_scope.

(** ** The four inverse transforms undo the forward transforms *)

Theorem C03_inv_subtract_green_fwd : forall img,
  Forall wf_px img -> subtract_green_inv (subtract_green_fwd img) = img.
Proof. exact inv_subtract_green_fwd. Qed.
Print Assumptions C03_inv_subtract_green_fwd.

(** Any multiplier image (so every int8 triple in every tile), any tile size, any width. *)
Theorem C03_inv_cross_color_fwd : forall (mult : Z -> Z -> px) (w : Z) img,
  Forall wf_px img -> cross_color_inv mult w (cross_color_fwd mult w img) = img.
Proof. exact inv_cross_color_fwd_gen. Qed.
Print Assumptions C03_inv_cross_color_fwd.

(** Any assignment of the 14 modes to positions (so any tile bits and any mode
    image), any width including 1; the edge rules and the right-edge TR rule are
    part of [pred_px]. *)
Theorem C03_inv_predictor_fwd : forall (mode_at : Z -> Z -> Z) (w : Z) (wn : nat) img,
  Forall wf_px img -> predictor_inv mode_at w wn (predictor_fwd mode_at w wn img) = img.
Proof. exact inv_predictor_fwd_gen. Qed.
Print Assumptions C03_inv_predictor_fwd.

(** All four packings (exponent 0..3), widths that are not a multiple of the
    packing, any height; [find]/[look] are the two directions of a palette. *)
Theorem C03_inv_color_index_fwd : forall (look : Z -> px) (find : px -> Z) (wb : Z) (w h : nat) img,
  0 <= wb <= 3 -> (0 < w)%nat -> length img = (h * w)%nat ->
  Forall (fun p => 0 <= find p < bmod wb /\ look (find p) = p) img ->
  color_index_inv look wb w h (color_index_fwd find wb w h img) = img.
Proof. intros look find wb w h img Hwb Hw. exact (inv_color_index_fwd_gen look find wb w Hwb Hw h img). Qed.
Print Assumptions C03_inv_color_index_fwd.
