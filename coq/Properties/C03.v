(** C03 — VP8L decoding returns the pixels the format defines for every valid
    stream.  Only statements, each closed by [exact <lemma>] and followed by
    [Print Assumptions]. *)
From Coq Require Import List ZArith.
From Webp Require Import Base.Res Vp8l.Vp8lPixel Vp8l.Vp8lArr Vp8l.Vp8lPrefix Vp8l.Vp8lTransforms Vp8l.Vp8lSpec
  Vp8l.Vp8lCanon Vp8l.Vp8lLut Vp8l.Vp8lLut2 Vp8l.Vp8lPacked Vp8l.Vp8lPackedSpec Vp8l.Vp8lBitReader Vp8l.Vp8lBitReaderProof Vp8l.Vp8lBitReaderFill Vp8l.Vp8lEmit Vp8l.Vp8lEntropy Vp8l.Vp8lCodeLens Vp8l.Vp8lEmitDecode Vp8l.Vp8lWf Vp8l.Vp8lInPlace Vp8l.Vp8lKernels Vp8l.Vp8lTables Vp8l.Vp8lCacheDefer.
From WebpGen Require Consts Tables Vp8lRoles.
Import ListNotations.
Open Scope Z_scope.

(** ** The four inverse transforms undo the forward transforms *)

Theorem C03_inv_subtract_green_fwd : forall img,
  Forall wf_px img -> subtract_green_inv (subtract_green_fwd img) = img.
Proof. exact inv_subtract_green_fwd. Qed.
Print Assumptions C03_inv_subtract_green_fwd.

(** Any multiplier image (so every int8 triple in every tile), any tile size, any width. *)
Theorem C03_inv_cross_color_fwd : forall (mult : Z -> Z -> px) (w : Z) img,
  Forall wf_px img -> cross_color_inv mult w (cross_color_fwd mult w img) = img.
Proof. exact inv_cross_color_fwd_gen. Qed.
Print Assumptions C03_inv_cross_color_fwd.

(** Any assignment of the 14 modes to positions (so any tile bits and any mode
    image), any width including 1; the edge rules and the right-edge TR rule are
    part of [pred_px]. *)
Theorem C03_inv_predictor_fwd : forall (mode_at : Z -> Z -> Z) (w : Z) (wn : nat) img,
  Forall wf_px img -> predictor_inv mode_at w wn (predictor_fwd mode_at w wn img) = img.
Proof. exact inv_predictor_fwd_gen. Qed.
Print Assumptions C03_inv_predictor_fwd.

(** All four packings (exponent 0..3), widths that are not a multiple of the
    packing, any height; [find]/[look] are the two directions of a palette. *)
Theorem C03_inv_color_index_fwd : forall (look : Z -> px) (find : px -> Z) (wb : Z) (w h : nat) img,
  0 <= wb <= 3 -> (0 < w)%nat -> length img = (h * w)%nat ->
  Forall (fun p => 0 <= find p < bmod wb /\ look (find p) = p) img ->
  color_index_inv look wb w h (color_index_fwd find wb w h img) = img.
Proof. intros look find wb w h img Hwb Hw. exact (inv_color_index_fwd_gen look find wb w Hwb Hw h img). Qed.
Print Assumptions C03_inv_color_index_fwd.

(** ** Buffer discipline of applyInverseTransforms *)

(** The pinned tree (before commit 56944c7) ran every inverse after the first in
    place; for the pixel-packing colour-indexing inverse that is wrong.  Witness:
    2 colours, width 9, transforms [colour-indexing (8 indices per word); predictor]. *)
Theorem C03_inplace_inverse_refuted :
  exists ts coded, pinned_apply_inverse ts coded <> Ok (apply_inverse ts coded).
Proof. exact inplace_inverse_refuted. Qed.
Print Assumptions C03_inplace_inverse_refuted.

(** The repaired dataflow (the two buffers are swapped after every inverse, so
    input and output never alias) yields the specified pixels for every transform
    list whose sizes chain, whatever stale words the two buffers hold. *)
Theorem C03_pingpong_inverse_eq : forall ts coded sa sb,
  chain_ok (rev ts) coded ->
  firstn (length (apply_inverse ts coded)) (apply_inverse_pingpong ts coded sa sb) = apply_inverse ts coded.
Proof. exact pingpong_inverse_eq. Qed.
Print Assumptions C03_pingpong_inverse_eq.

(** ** LZ77 backward references *)

(** copyBlock32 (one memmove when the ranges do not overlap, a fill for distance 1,
    otherwise the first period followed by doubling) = the pixel-by-pixel
    definition of the format, for every element type, buffer and in-range
    (pos, dist, len). *)
Theorem C03_copy_block_eq : forall (A : Type) (d : A) (data : list A) pos dist len,
  (1 <= dist <= pos)%nat -> (pos + len <= length data)%nat ->
  copy_block d data pos dist len = copy_fwd d len data pos dist.
Proof. exact (@copy_block_eq). Qed.
Print Assumptions C03_copy_block_eq.

(** ** Colour cache: the decoder inserts pixels into the cache lazily (cursor
    lastCached; flushes at row ends, after copies, before lookups).  For every
    flush schedule — one boolean per token — in which a lookup flushes first, the
    decoded pixels are those of immediate insertion. *)
Theorem C03_cache_deferred_eq_immediate : forall cb w (toks : list (token * bool)),
  replay_deferred cb w toks arr_empty [] [] = replay cb w (map fst toks) arr_empty [].
Proof. exact cache_deferred_eq_immediate. Qed.
Print Assumptions C03_cache_deferred_eq_immediate.

(** ** Colour table *)
Theorem C03_expand_color_map_eq : forall ncolors bits pal idx,
  0 <= bits <= 3 -> Z.of_nat (length pal) = ncolors -> ncolors <= 2 ^ (8 / 2 ^ bits) ->
  0 <= idx < 2 ^ (8 / 2 ^ bits) ->
  nth (Z.to_nat idx) (expand_color_map ncolors bits pal) px_zero =
  arr_get px_zero (arr_of_list (undelta px_zero pal)) idx.
Proof. exact expand_color_map_eq. Qed.
Print Assumptions C03_expand_color_map_eq.

(** ** Bit and prefix-code layer *)

Theorem C03_read_put_bits : forall n v rest, 0 <= v < 2 ^ Z.of_nat n ->
  read_bits n (put_bits n v ++ rest) = Ok (v, rest).
Proof. exact read_put_bits. Qed.
Print Assumptions C03_read_put_bits.

(** Implementation model of the 64-bit window bit reader (LosslessReader: window,
    byte shifting after every read, sticky end-of-stream flag) vs the bit-list
    reader of the specification: for every byte string and every sequence of
    ReadBits(n), 0 <= n <= 24, that stays inside the data, the values are exactly
    the specification's and the flag stays clear.  (Named _partial because it covers ReadBits
    only; FillBitWindow / PrefetchBits / SetBitPos are covered by
    [C03_bitreader_script_refines] below.) *)
Theorem C03_bitreader_window_refines_partial : forall data ns,
  bytes_ok data -> Forall (fun n => 0 <= n <= 24) ns -> total ns <= 8 * Z.of_nat (length data) ->
  br_run ns (br_new data) = map (fun v => (v, false)) (spec_reads ns (bits_of_bytes data)).
Proof. exact bitreader_window_refines. Qed.
Print Assumptions C03_bitreader_window_refines_partial.

(** ... and the symbol decoder's path: every script of ReadBits(n <= 24), FillBitWindow +
    PrefetchBits and SetBitPos(BitPos + k) that keeps the decoder's discipline (at most
    [slack] bits consumed before the next refill: 56 after a ReadBits, at least 32 after a
    FillBitWindow; nothing consumed beyond the data; prefetch strictly inside the data)
    returns the fields (V / 2^p) mod 2^n of the byte string read as one little-endian integer
    V (= the LSB-first bit order of the format), PrefetchBits returns the 32 bits at the
    current offset zero-extended beyond the end, and the flag stays clear.  Covers the fast
    four-byte refill and the byte-wise refill near the end of the buffer. *)
Theorem C03_bitreader_script_refines : forall data ops,
  bytes_ok data -> wf_script (8 * Z.of_nat (length data)) ops 0 56 ->
  br_run ops (br_new data) = spec_script (le_value data) ops 0.
Proof. exact bitreader_script_refines. Qed.
Print Assumptions C03_bitreader_script_refines.

(** ... the discipline has a sound boolean checker, which the runner evaluates on every script of
    the correspondence run; on the scripts it accepts the specification side is compared too. *)
Theorem C03_bitreader_script_refines_checked : forall data ops,
  bytes_ok data -> wf_scriptb (8 * Z.of_nat (length data)) ops 0 56 = true ->
  br_run ops (br_new data) = spec_script (le_value data) ops 0.
Proof. exact bitreader_script_refines_checked. Qed.
Print Assumptions C03_bitreader_script_refines_checked.

(** The read that crosses the end of a buffer of at least 8 bytes raises the
    end-of-stream flag (shorter buffers: only beyond bit 64, as the code tests
    bitPos > 64). *)
Theorem C03_read_past_end_sets_eos : forall data, bytes_ok data -> 8 <= Z.of_nat (length data) ->
  forall r p n, inv data r p -> 0 <= n <= 24 -> 8 * Z.of_nat (length data) < p + n ->
  br_is_eos (snd (br_read_bits n r)) = true.
Proof. exact read_past_end_sets_eos. Qed.
Print Assumptions C03_read_past_end_sets_eos.

(** Canonical prefix codes: for every length vector the decoder accepts (one used
    symbol, or Kraft-complete with lengths <= 15; both simple-code shapes are
    instances) and every used symbol, decoding the symbol's canonical code word
    (value = cumulative Kraft weight of the earlier symbols in (length, symbol)
    order, i.e. the RFC 1951 numbering, most significant bit first) returns the
    symbol and consumes exactly the code word. *)
Theorem C03_prefix_roundtrip : forall lens t s rest,
  tree_of_lens lens = Ok t ->
  0 <= s < Z.of_nat (length lens) -> nth (Z.to_nat s) lens 0 <> 0 ->
  read_symbol t (code_bits lens s ++ rest) = Ok (s, rest).
Proof. exact prefix_roundtrip. Qed.
Print Assumptions C03_prefix_roundtrip.

Theorem C03_complete_code_accepted : forall lens,
  lens_in_range lens = true -> kraft_sum lens = 32768 -> exists t, tree_of_lens lens = Ok t.
Proof. exact tree_of_lens_complete. Qed.
Print Assumptions C03_complete_code_accepted.

(** Implementation model of the decoder's Huffman lookup tables (BuildHuffmanTable:
    symbols sorted by (length, symbol), bit-reversed running key advanced by
    getNextKey, replicate step, second-level tables sized by nextTableBitSize and
    linked from the root slot; ReadSymbol: root lookup and optional second-level
    lookup) vs the canonical code: for every length vector the decoder accepts,
    every root size 1..15 (the code uses 8 and 7) and every bit window, the table
    lookup returns the symbol and the length that walking the canonical code tree
    along the window gives ... *)
Theorem C03_lut_decode_eq_canonical : forall root lens t tab w, 1 <= root <= 15 ->
  tree_of_lens lens = Ok t -> lut_build root lens = Ok tab -> 0 <= w ->
  exists v n, walk t w = Some (v, n) /\ lut_read root tab w = (v, n).
Proof. exact lut_decode_eq_canonical. Qed.
Print Assumptions C03_lut_decode_eq_canonical.

(** The packed-table fast path (buildPackedTable / accumulateHCode / readPackedSymbols,
    selected by readHuffmanCodes when the maximal code lengths of the green, red, blue and
    alpha codes sum to less than HuffmanPackedBits = 6; proved for sums up to 6, all the 64-entry
    table can hold): for all four length vectors with
    maxima mg..ma, their root-8 lookup tables and every prefetched window, the 64-entry
    packed table returns the same symbol(s) and consumes the same number of bits as walking
    the four canonical code trees one after the other (a non-literal green symbol alone; a
    literal green followed by red, blue, alpha assembled as a<<24 | r<<16 | g<<8 | b). *)
Theorem C03_packed_read_eq_sequential :
  forall lg lr lb la mg mr mb ma tg tr tb ta g r b a w,
  table_of lg mg tg g -> table_of lr mr tr r -> table_of lb mb tb b -> table_of la ma ta a ->
  mg + mr + mb + ma <= 6 -> 0 <= w ->
  seq_read tg tr tb ta w = Some (packed_read (packed_build g r b a) w).
Proof. exact packed_read_eq_sequential. Qed.
Print Assumptions C03_packed_read_eq_sequential.

(** ... so the two branches of the pixel loop of decodeImageData read the same thing: on every
    group marked UsePackedTable the packed read equals the four ReadSymbol calls (green, then for
    a literal red, blue, alpha on the successively advanced window) of the other branch. *)
Theorem C03_packed_read_eq_lut_reads :
  forall lg lr lb la mg mr mb ma tg tr tb ta g r b a w,
  table_of lg mg tg g -> table_of lr mr tr r -> table_of lb mb tb b -> table_of la ma ta a ->
  mg + mr + mb + ma <= 6 -> 0 <= w ->
  packed_read (packed_build g r b a) w = seq_read_lut g r b a w.
Proof. exact packed_read_eq_lut_reads. Qed.
Print Assumptions C03_packed_read_eq_lut_reads.

(** ... and both are the pixel read of the SPECIFICATION decoder ([spec_read_pixel] = the
    literal / non-literal branch of Vp8lSpec.pixels_loop: read_symbol on the green code, then on
    red, blue, alpha, pixel assembled by mkpx) on the bit list of the window: same symbol or same
    ARGB word (the shifts-and-ors word of accumulateHCode = argb_of_px, channels < 256 because
    the three alphabets have 256 symbols), same bits consumed. *)
Theorem C03_packed_read_eq_spec_pixel :
  forall lg lr lb la mg mr mb ma tg tr tb ta g r b a w res n k rest,
  table_of lg mg tg g -> table_of lr mr tr r -> table_of lb mb tb b -> table_of la ma ta a ->
  length lr = 256%nat -> length lb = 256%nat -> length la = 256%nat ->
  mg + mr + mb + ma <= 6 -> 0 <= w ->
  packed_read (packed_build g r b a) w = (res, n) -> (Z.to_nat n <= k)%nat ->
  spec_read_pixel tg tr tb ta (put_bits k w ++ rest) = Ok (res, put_bits (k - Z.to_nat n) (w / 2 ^ n) ++ rest).
Proof. exact packed_read_eq_spec_pixel. Qed.
Print Assumptions C03_packed_read_eq_spec_pixel.

(** ... where walking the tree along a window is reading the symbol from the
    window's bit list (so [C03_prefix_roundtrip] applies to it). *)
Theorem C03_walk_read_symbol : forall t w v n k rest, walk t w = Some (v, n) -> (Z.to_nat n <= k)%nat ->
  read_symbol t (put_bits k w ++ rest) = Ok (v, put_bits (k - Z.to_nat n) (w / 2 ^ n) ++ rest).
Proof. exact walk_read_symbol. Qed.
Print Assumptions C03_walk_read_symbol.

(** Basis of the decoder's trivial-literal shortcut: one-symbol red/blue/alpha codes
    are read without consuming bits and yield the group's constants. *)
Theorem C03_trivial_literal_eq : forall lr lb la tr tb ta l1 r l2 b l3 a,
  tree_of_lens lr = Ok tr -> tree_of_lens lb = Ok tb -> tree_of_lens la = Ok ta ->
  lens_items lr = [(l1, r)] -> lens_items lb = [(l2, b)] -> lens_items la = [(l3, a)] ->
  forall s,
  ('(r', s1) <- read_symbol tr s ;; '(b', s2) <- read_symbol tb s1 ;; '(a', s3) <- read_symbol ta s2 ;;
   Ok (a', r', b', s3)) = Ok (a, r, b, s).
Proof. exact trivial_literal_eq. Qed.
Print Assumptions C03_trivial_literal_eq.

(** the textbook recurrence of the code values: +1, then shift by the length increase *)
Theorem C03_canonical_recurrence : forall W l1 l2, l1 <= l2 <= 15 -> (wt l1 | W) ->
  (W + wt l1) / wt l2 = (W / wt l1 + 1) * 2 ^ (l2 - l1).
Proof. exact codes_step. Qed.
Print Assumptions C03_canonical_recurrence.

(** ** Ties to the source (regenerated on every run) *)

Theorem C03_code_to_plane_matches_spec :
  map unpack_plane WebpGen.Tables.lossless_CodeToPlane = plane_lut.
Proof. exact code_to_plane_matches_spec. Qed.
Print Assumptions C03_code_to_plane_matches_spec.

Theorem C03_plane_lut_is_the_neighbourhood :
  length plane_lut = 120%nat /\ forallb in_neighbourhood plane_lut = true /\ nodupb plane_lut = true
  /\ sorted_by (fun p => fst p * fst p + snd p * snd p) plane_lut = true.
Proof. exact plane_lut_is_the_neighbourhood. Qed.
Print Assumptions C03_plane_lut_is_the_neighbourhood.

Theorem C03_format_constants_match_spec :
  WebpGen.Consts.lossless_NumLiteralCodes = 256 /\ WebpGen.Consts.lossless_NumLengthCodes = 24 /\
  WebpGen.Consts.lossless_NumDistanceCodes = 40 /\ WebpGen.Consts.lossless_CodeLengthCodes = 19 /\
  WebpGen.Consts.lossless_MaxAllowedCodeLength = 15 /\ WebpGen.Consts.lossless_DefaultCodeLength = 8 /\
  WebpGen.Consts.lossless_MaxCacheBits = 11 /\ WebpGen.Vp8lRoles.lossless_role_colorcache_mul = 506832829 /\
  WebpGen.Consts.lossless_VP8LMagicByte = 47 /\ WebpGen.Consts.lossless_VP8LImageSizeBits = 14 /\
  WebpGen.Consts.lossless_VP8LVersionBits = 3 /\ WebpGen.Consts.lossless_VP8LVersion = 0 /\
  WebpGen.Consts.lossless_MinTransformBits = 2 /\ WebpGen.Consts.lossless_NumTransformBits = 3 /\
  WebpGen.Consts.lossless_MinHuffmanBits = 2 /\ WebpGen.Consts.lossless_NumHuffmanBits = 3 /\
  WebpGen.Consts.lossless_CodeToPlaneCodesCount = 120 /\ WebpGen.Consts.lossless_ARGBBlack = argb_of_px px_black /\
  WebpGen.Consts.lossless_PredictorTransform = 0 /\ WebpGen.Consts.lossless_CrossColorTransform = 1 /\
  WebpGen.Consts.lossless_SubtractGreenTransform = 2 /\ WebpGen.Consts.lossless_ColorIndexingTransform = 3 /\
  WebpGen.Tables.lossless_CodeLengthCodeOrder = code_length_order /\
  WebpGen.Tables.lossless_CodeLengthExtraBits = [2; 3; 7] /\
  WebpGen.Tables.lossless_CodeLengthRepeatOffsets = [3; 3; 11] /\
  WebpGen.Vp8lRoles.lossless_role_base_alphabet_sizes = [256 + 24; 256; 256; 256; 40].
Proof. exact format_constants_match_spec. Qed.
Print Assumptions C03_format_constants_match_spec.

(** The sizes the table models are written with (root size 8, mask 255, 64 packed slots of 6
    window bits, eligibility bound 6) are the code's. *)
Theorem C03_table_constants_match_models :
  WebpGen.Consts.lossless_HuffmanTableBits = 8 /\ WebpGen.Consts.lossless_HuffmanTableMask = 2 ^ 8 - 1 /\
  WebpGen.Consts.lossless_HuffmanPackedBits = 6 /\ WebpGen.Consts.lossless_HuffmanPackedTableSize = 2 ^ 6.
Proof. exact table_constants_match_models. Qed.
Print Assumptions C03_table_constants_match_models.

(** ** Emitter / decoder *)

(** Length / distance prefix coding with extra bits. *)
Theorem C03_lz_roundtrip : forall v rest, 1 <= v ->
  let '(sym, eb, ev) := lz_prefix v in lz_value sym (putZ eb ev ++ rest) = Ok (v, rest).
Proof. exact lz_roundtrip. Qed.
Print Assumptions C03_lz_roundtrip.

(** Transmission of one prefix code (simple codes; code-length code, max_symbol,
    16/17/18 repeat tokens). *)
Theorem C03_code_roundtrip : forall alphabet cp t rest,
  wf_code alphabet cp -> tree_of_lens (code_lens alphabet cp) = Ok t ->
  read_code alphabet (emit_code cp ++ rest) = Ok (t, rest).
Proof. exact code_roundtrip. Qed.
Print Assumptions C03_code_roundtrip.

(** Token level, one prefix-code group with colour cache: literal, cache and copy
    tokens (plane codes included) decode to the pixels the token list denotes. *)
Theorem C03_entropy_roundtrip : forall lg lr lb la ld tg tr tb ta td,
  tree_of_lens lg = Ok tg -> tree_of_lens lr = Ok tr -> tree_of_lens lb = Ok tb ->
  tree_of_lens la = Ok ta -> tree_of_lens ld = Ok td ->
  forall cb w total toks h rest,
  total = w * h -> 0 <= total -> tokens_ok lg lr lb la ld w total 0 toks -> Z.of_nat (length toks) <= total ->
  decode_pixels (ctx1 tg tr tb ta td cb w) w h
                (emit_tokens w (fun _ _ => 0) (arr_of_list [gtabs lg lr lb la ld]) toks 0 ++ rest)
  = Ok (frev (replay cb w toks arr_empty []), rest).
Proof. exact entropy_roundtrip. Qed.
Print Assumptions C03_entropy_roundtrip.

(** Token level with a meta prefix image: several prefix-code groups, the group of
    a token being that of the tile its first pixel lies in. *)
Theorem C03_entropy_roundtrip_groups : forall gls gs, Forall2 grp_ok gls gs ->
  forall cb w total mb mw meta, 1 <= w -> forall toks h rest,
  total = w * h -> 0 <= total -> tokens_ok_m gls w total mb mw meta 0 toks ->
  decode_pixels (ctxm gs cb w mb mw meta) w h (emit_tokens w (gidx mb mw meta) (tabsm gls) toks 0 ++ rest)
  = Ok (frev (replay cb w toks arr_empty []), rest).
Proof. exact entropy_roundtrip_m. Qed.
Print Assumptions C03_entropy_roundtrip_groups.

(** emit_decode: the specification decoder applied to the emitter's bytes returns
    the pixels the plan denotes, for every well-formed plan: any transform list
    (each type at most once, any order, any tile bits / palette size; sub-images
    with their own cache and codes), with or without a meta prefix image (any
    number of groups), any colour cache, any mix of simple and normal codes
    (code-length code, max_symbol, 16/17/18 repeats), any valid token list. *)
Theorem C03_emit_decode : forall p, wf_plan p -> decode (emit p) = Ok (sem p).
Proof. exact emit_decode. Qed.
Print Assumptions C03_emit_decode.

(** [wf_plan] is decided soundly by the boolean checker the harness runs on every
    plan it generates ... *)
Theorem C03_emit_decode_checked : forall p, wf_planb p = true -> decode (emit p) = Ok (sem p).
Proof. exact emit_decode_checked. Qed.
Print Assumptions C03_emit_decode_checked.

(** ... and is satisfiable non-trivially: a generated plan with three transforms, a
    meta prefix image with several groups, colour cache, cache and copy tokens,
    normal codes with repeat tokens. *)
Theorem C03_wf_plan_example : wf_planb ex_plan = true.
Proof. exact ex_plan_wf. Qed.
Print Assumptions C03_wf_plan_example.
