(** C19 — Encode depends on the picture, not on how the pixels are stored.
    Only statements, each closed by [exact <lemma>] and followed by [Print Assumptions].
    Models: Place/PlaceModel.v (index arithmetic of every *image.NRGBA fast path, with Panic,
    and of the generic At() path); proofs: Place/PlaceProof.v.
    [valid pl] = Bounds() = Rect (as *image.NRGBA guarantees), w, h >= 1 (Encode rejects empty
    images) and validNRGBA(img, w, h).  Placements range over every Pix, Stride, Rect:
    origin placement, sub-image views with non-zero (also negative) Rect.Min and larger
    stride, extra stride padding (also not a multiple of 4), trailing bytes. *)
From Coq Require Import List ZArith Bool.
From Webp Require Import Base.Res Place.PlaceModel Place.PlaceProof Place.PlaceEdge Place.PlaceFactor Place.PlaceSites.
Import ListNotations.
Open Scope Z_scope.

(** The generic At() path never panics on a valid placement; it defines the picture. *)
Theorem C19_generic_path_total : forall pl, valid pl -> exists p, picture pl = Ok p.
Proof. intros pl [W V]. eexists. exact (picture_ok pl W V). Qed.
Print Assumptions C19_generic_path_total.

(** lossless import of encodeLossless / encodeLosslessToWriter (ARGB words): the fast path never panics and equals the generic path's result. *)
Theorem C19_fast_eq_generic_argb : forall pl p, valid pl -> picture pl = Ok p -> fast_argb pl = Ok (gen_argb p).
Proof. intros pl p [W V] E. rewrite (picture_ok pl W V) in E. injection E as <-. exact (fast_argb_ok pl W V). Qed.
Print Assumptions C19_fast_eq_generic_argb.

Theorem C19_import_placement_independent_argb : forall pl1 pl2, valid pl1 -> valid pl2 ->
  picture pl1 = picture pl2 -> fast_argb pl1 = fast_argb pl2.
Proof. exact indep_argb. Qed.
Print Assumptions C19_import_placement_independent_argb.

(** encode.go imageHasAlpha: the fast path never panics and equals the generic path's result. *)
Theorem C19_fast_eq_generic_root_has_alpha : forall pl p, valid pl -> picture pl = Ok p -> fast_root_has_alpha pl = Ok (gen_has_alpha p).
Proof. intros pl p [W V] E. rewrite (picture_ok pl W V) in E. injection E as <-. exact (fast_root_has_alpha_ok pl W V). Qed.
Print Assumptions C19_fast_eq_generic_root_has_alpha.

Theorem C19_import_placement_independent_root_has_alpha : forall pl1 pl2, valid pl1 -> valid pl2 ->
  picture pl1 = picture pl2 -> fast_root_has_alpha pl1 = fast_root_has_alpha pl2.
Proof. exact indep_root_has_alpha. Qed.
Print Assumptions C19_import_placement_independent_root_has_alpha.

(** lossy.imageHasAlpha (no validNRGBA guard): the fast path never panics and equals the generic path's result. *)
Theorem C19_fast_eq_generic_lossy_has_alpha : forall pl p, valid pl -> picture pl = Ok p -> fast_lossy_has_alpha pl = Ok (gen_has_alpha p).
Proof. intros pl p [W V] E. rewrite (picture_ok pl W V) in E. injection E as <-. exact (fast_lossy_has_alpha_ok pl W V). Qed.
Print Assumptions C19_fast_eq_generic_lossy_has_alpha.

Theorem C19_import_placement_independent_lossy_has_alpha : forall pl1 pl2, valid pl1 -> valid pl2 ->
  picture pl1 = picture pl2 -> fast_lossy_has_alpha pl1 = fast_lossy_has_alpha pl2.
Proof. exact indep_lossy_has_alpha. Qed.
Print Assumptions C19_import_placement_independent_lossy_has_alpha.

(** extractAlphaWith: the fast path never panics and equals the generic path's result. *)
Theorem C19_fast_eq_generic_extract_alpha : forall pl p, valid pl -> picture pl = Ok p -> fast_extract_alpha pl = Ok (gen_alpha p).
Proof. intros pl p [W V] E. rewrite (picture_ok pl W V) in E. injection E as <-. exact (fast_extract_alpha_ok pl W V). Qed.
Print Assumptions C19_fast_eq_generic_extract_alpha.

Theorem C19_import_placement_independent_extract_alpha : forall pl1 pl2, valid pl1 -> valid pl2 ->
  picture pl1 = picture pl2 -> fast_extract_alpha pl1 = fast_extract_alpha pl2.
Proof. exact indep_extract_alpha. Qed.
Print Assumptions C19_import_placement_independent_extract_alpha.

(** row copy of cleanupTransparentAreaLossyWith: the fast path never panics and equals the generic path's result. *)
Theorem C19_fast_eq_generic_cleanup_copy : forall pl p, valid pl -> picture pl = Ok p -> fast_cleanup_copy pl = Ok (p).
Proof. intros pl p [W V] E. rewrite (picture_ok pl W V) in E. injection E as <-. exact (fast_cleanup_copy_ok pl W V). Qed.
Print Assumptions C19_fast_eq_generic_cleanup_copy.

Theorem C19_import_placement_independent_cleanup_copy : forall pl1 pl2, valid pl1 -> valid pl2 ->
  picture pl1 = picture pl2 -> fast_cleanup_copy pl1 = fast_cleanup_copy pl2.
Proof. exact indep_cleanup_copy. Qed.
Print Assumptions C19_import_placement_independent_cleanup_copy.

(** RGB import of sharpYUVConvert: the fast path never panics and equals the generic path's result. *)
Theorem C19_fast_eq_generic_sharp_rgb : forall pl p, valid pl -> picture pl = Ok p -> fast_sharp_rgb pl = Ok (gen_sharp_rgb p).
Proof. intros pl p [W V] E. rewrite (picture_ok pl W V) in E. injection E as <-. exact (fast_sharp_rgb_ok pl W V). Qed.
Print Assumptions C19_fast_eq_generic_sharp_rgb.

Theorem C19_import_placement_independent_sharp_rgb : forall pl1 pl2, valid pl1 -> valid pl2 ->
  picture pl1 = picture pl2 -> fast_sharp_rgb pl1 = fast_sharp_rgb pl2.
Proof. exact indep_sharp_rgb. Qed.
Print Assumptions C19_import_placement_independent_sharp_rgb.

(** lossy.importImage, direct non-dithered paths (Y plane with F = RGBToY; the R,G,B,A rows fed
    to the chroma accumulation with F = id): rows clamped to h-1, pixels x < w read, last value
    replicated to the padded width; for every stored function F. *)
Theorem C19_fast_eq_generic_import_rows : forall (T : Type) (F : px -> T) d pl p, valid pl -> picture pl = Ok p ->
  fast_import_rows F d pl = Ok (gen_import_rows F d (pw pl) (ph pl) p).
Proof. intros T F d pl p [W V] E. rewrite (picture_ok pl W V) in E. injection E as <-. exact (fast_import_rows_ok pl W V F d). Qed.
Print Assumptions C19_fast_eq_generic_import_rows.

Theorem C19_import_placement_independent_import_rows : forall (T : Type) (F : px -> T) d pl1 pl2, valid pl1 -> valid pl2 ->
  picture pl1 = picture pl2 -> fast_import_rows F d pl1 = fast_import_rows F d pl2.
Proof. intros T F d pl1 pl2 V1 V2 E. exact (indep_import_rows pl1 pl2 V1 V2 E F d). Qed.
Print Assumptions C19_import_placement_independent_import_rows.

(** lossy.importImage, serial path (extractRow: dithering): both coordinates clamped. *)
Theorem C19_fast_eq_generic_import_rows_serial : forall (T : Type) (F : px -> T) pl p, valid pl -> picture pl = Ok p ->
  fast_import_rows_serial F pl = Ok (gen_import_rows_serial F (pw pl) (ph pl) p).
Proof. intros T F pl p [W V] E. rewrite (picture_ok pl W V) in E. injection E as <-. exact (fast_import_rows_serial_ok pl W V F). Qed.
Print Assumptions C19_fast_eq_generic_import_rows_serial.

Theorem C19_import_placement_independent_import_rows_serial : forall (T : Type) (F : px -> T) pl1 pl2, valid pl1 -> valid pl2 ->
  picture pl1 = picture pl2 -> fast_import_rows_serial F pl1 = fast_import_rows_serial F pl2.
Proof. intros T F pl1 pl2 V1 V2 E. exact (indep_import_rows_serial pl1 pl2 V1 V2 E F). Qed.
Print Assumptions C19_import_placement_independent_import_rows_serial.

(** Bytes of the backing buffer outside the bounds' rows/columns (parent pixels, stride padding,
    trailing bytes) never influence the picture, hence (by the theorems above) no extraction. *)
Theorem C19_outside_bounds_irrelevant : forall pl1 pl2,
  valid pl1 -> valid pl2 -> same_geometry pl1 pl2 -> agree_in_bounds pl1 pl2 -> picture pl1 = picture pl2.
Proof. exact outside_bounds_irrelevant. Qed.
Print Assumptions C19_outside_bounds_irrelevant.

(** Non-vacuity: an origin placement and a sub-image view at (3,5) of a noisy parent with a
    larger stride are both valid, show the same picture and have different buffers. *)
Theorem C19_hypotheses_satisfiable :
  valid ex_origin /\ valid ex_sub /\ picture ex_origin = picture ex_sub /\ pPix ex_origin <> pPix ex_sub.
Proof. exact ex_valid. Qed.
Print Assumptions C19_hypotheses_satisfiable.

(** Sharpness of the validity hypothesis: the lossy package's paths have no validNRGBA guard,
    a placement whose Pix is one row short makes them index out of range. *)
Theorem C19_unguarded_paths_panic_on_invalid_placement :
  validb ex_short = false /\ fast_lossy_has_alpha ex_short = Panic /\ fast_import_rows rgb_to_y 0 ex_short = Panic /\
  fast_extract_alpha ex_short = Panic.
Proof. exact short_placement_panics. Qed.
Print Assumptions C19_unguarded_paths_panic_on_invalid_placement.

(** Edge replication: the direct path's padding (replicate the last value of the row) equals the
    serial path's clamped reads, for every valid placement and stored function. *)
Theorem C19_edge_replication : forall (T : Type) (F : px -> T) d pl, valid pl ->
  fast_import_rows F d pl = fast_import_rows_serial F pl.
Proof. intros T F d pl V. exact (edge_replication F d pl V). Qed.
Print Assumptions C19_edge_replication.

(** The source (regenerated list of every use of every image.Image parameter in the root and
    lossy packages) lets the image reach pixels-reading code only through the modelled import
    functions; drivers use the geometry only; in encodeLossless / encodeLosslessToWriter the single
    import statement precedes the codec call and is the last use of the image. *)
Theorem C19_source_factors_through_import : factors_through_import = true.
Proof. exact source_factors_through_import. Qed.
Print Assumptions C19_source_factors_through_import.

(** Hence, for every "rest of the encoder" (any function of options, dimensions and the
    extracted arrays: analysis, heuristics, token emission, container writing), the output is a
    function of the logical picture: two valid placements of the same picture give the same
    output, and bytes outside the bounds never matter. *)
Theorem C19_encode_factors_through_import : forall (Cfg Out : Type) (rest : Cfg -> Z -> Z -> imports -> Out) cfg pl1 pl2,
  valid pl1 -> valid pl2 -> picture pl1 = picture pl2 ->
  encode_model Cfg Out rest cfg pl1 = encode_model Cfg Out rest cfg pl2.
Proof. exact encode_factors_through_import. Qed.
Print Assumptions C19_encode_factors_through_import.

Theorem C19_encode_ignores_bytes_outside_bounds : forall (Cfg Out : Type) (rest : Cfg -> Z -> Z -> imports -> Out) cfg pl1 pl2,
  valid pl1 -> valid pl2 -> same_geometry pl1 pl2 -> agree_in_bounds pl1 pl2 ->
  encode_model Cfg Out rest cfg pl1 = encode_model Cfg Out rest cfg pl2.
Proof. exact encode_ignores_bytes_outside_bounds. Qed.
Print Assumptions C19_encode_ignores_bytes_outside_bounds.

(** The set of pixel-reading signatures (sorted kinds of pixel uses per reading function: Pix fast
    paths = type assertions, generic At() loops) is the one the models and the harness' placement x
    type x configuration product were written against, whichever function holds the loops; a new
    kind of reader breaks this obligation. *)
Theorem C19_import_sites_match_model : WebpGen.ImgUse.img_pixel_signatures = doc_pixel_signatures.
Proof. exact import_sites_match_model. Qed.
Print Assumptions C19_import_sites_match_model.

(** "The caller's image is never modified", as a regenerated fact: in the import functions no
    element of the concrete image's Pix (or of a variable assigned from it) is assigned to,
    incremented, or used as the destination of copy; Pix is never passed on (except to len) and
    the concrete image is only passed to validNRGBA / validRGBA and read through
    Pix / Stride / Rect / Bounds / Opaque / PixOffset (the translator REFUSES anything else). *)
Theorem C19_source_never_writes_callers_buffer : WebpGen.ImgUse.pix_stores = [].
Proof. exact (proj2 (proj2 (proj2 pix_sites_match_model_holds))). Qed.
Print Assumptions C19_source_never_writes_callers_buffer.

(** The index expressions of every direct Pix read, the slice read of the clean-up copy and all
    assignments feeding them are exactly the ones PlaceModel.v transcribes (frozen in
    Place/PlaceSites.v). *)
Theorem C19_pix_sites_match_model : pix_sites_match_model.
Proof. exact pix_sites_match_model_holds. Qed.
Print Assumptions C19_pix_sites_match_model.

(** "Nothing outside the bounds is read": for every valid placement (any Pix, Stride, Rect) the
    offset of byte c of logical pixel (x, y) - the only offsets the modelled fast paths read, by
    the fast = generic theorems above - lies inside the buffer, inside row y and inside the
    columns of the bounds. *)
Theorem C19_in_bounds_offsets_in_range : forall pl, wf pl -> validb pl = true ->
  forall x y c, 0 <= x < pw pl -> 0 <= y < ph pl -> 0 <= c < 4 ->
  0 <= off pl x y c < plen pl /\ y * pStride pl <= off pl x y c < y * pStride pl + pw pl * 4.
Proof. exact in_bounds_offsets_in_range. Qed.
Print Assumptions C19_in_bounds_offsets_in_range.
