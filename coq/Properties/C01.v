(** C01 — lossless encode/decode round trip reproduces every pixel exactly.
    Only statements, each closed by [exact <lemma>] and followed by
    [Print Assumptions]. *)
From Coq Require Import List ZArith Bool.
From Webp Require Import Base.Res Vp8l.Vp8lPixel Vp8l.Vp8lArr Vp8l.Vp8lPrefix Vp8l.Vp8lTransforms Vp8l.Vp8lSpec
  Vp8l.Vp8lEmit Vp8l.Vp8lEmitDecode Vp8l.Vp8lImport Vp8l.Vp8lRoundtrip Vp8l.Vp8lWindow.
From WebpGen Require Consts Vp8lRoles.
Import ListNotations.
Open Scope Z_scope.

(** ** The round trip as one theorem at model level.  The encoder's heuristics are
    choices (transform list with data, how each sub-image and the residual image
    are coded: cache bits, code plans, tokens); [valid] says the stream is well
    formed ([wf_plan]: any transforms, with or without meta prefix image), the
    written transforms are the applied ones, every forward step is applicable and
    the tokens denote the residual image. *)
Theorem C01_lossless_roundtrip : forall img o c,
  valid img o c -> decode (emit (plan_of img o c)) = Ok (expected img o).
Proof. exact lossless_roundtrip. Qed.
Print Assumptions C01_lossless_roundtrip.

Theorem C01_lossless_roundtrip_pixels : forall img o c,
  valid img o c ->
  exists im, decode (emit (plan_of img o c)) = Ok im /\ i_w im = s_w img /\ i_h im = s_h img /\
    i_px im = map (fun p => if negb (o_exact o) && (pa p =? 0) then px_zero else p) (s_px img).
Proof. exact lossless_roundtrip_pixels. Qed.
Print Assumptions C01_lossless_roundtrip_pixels.

(** the hypotheses are satisfiable *)
Theorem C01_roundtrip_example : valid ex_src ex_opts ex_choices.
Proof. exact ex_valid. Qed.
Print Assumptions C01_roundtrip_example.

(** ** The decoder inverts the encoder's transform chain: for every transform
    list (any subset and order, any tile bits, any tile data, any palette and
    packing) whose steps are well formed, applying the inverse transforms in
    reverse order, each with its recorded width, to the encoder's forward chain
    gives back the image. *)
Theorem C01_inverse_chain : forall ts img,
  Vp8lImport.chain_ok ts img -> apply_inverse ts (forward_chain ts img) = img.
Proof. exact inverse_chain. Qed.
Print Assumptions C01_inverse_chain.

(** The four transform-level round trips the chain theorem rests on. *)
Theorem C01_inv_subtract_green_fwd : forall img,
  Forall wf_px img -> subtract_green_inv (subtract_green_fwd img) = img.
Proof. exact inv_subtract_green_fwd. Qed.
Print Assumptions C01_inv_subtract_green_fwd.

Theorem C01_inv_cross_color_fwd : forall (mult : Z -> Z -> px) (w : Z) img,
  Forall wf_px img -> cross_color_inv mult w (cross_color_fwd mult w img) = img.
Proof. exact inv_cross_color_fwd_gen. Qed.
Print Assumptions C01_inv_cross_color_fwd.

Theorem C01_inv_predictor_fwd : forall (mode_at : Z -> Z -> Z) (w : Z) (wn : nat) img,
  Forall wf_px img -> predictor_inv mode_at w wn (predictor_fwd mode_at w wn img) = img.
Proof. exact inv_predictor_fwd_gen. Qed.
Print Assumptions C01_inv_predictor_fwd.

Theorem C01_inv_color_index_fwd : forall (look : Z -> px) (find : px -> Z) (wb : Z) (w h : nat) img,
  0 <= wb <= 3 -> (0 < w)%nat -> length img = (h * w)%nat ->
  Forall (fun p => 0 <= find p < bmod wb /\ look (find p) = p) img ->
  color_index_inv look wb w h (color_index_fwd find wb w h img) = img.
Proof. intros look find wb w h img Hwb Hw. exact (inv_color_index_fwd_gen look find wb w Hwb Hw h img). Qed.
Print Assumptions C01_inv_color_index_fwd.

(** ** Pixel import *)

(** The pinned fast path (c*255/a) is not the colour-model formula: it differs
    for exactly 15193 of the valid premultiplied (channel, alpha) pairs. *)
Theorem C01_rgba_unpremultiply_refuted :
  ~ rgba_unpremultiply_exact_statement pinned_fast_chan /\ pinned_diff_count = 15193.
Proof. exact rgba_unpremultiply_refuted. Qed.
Print Assumptions C01_rgba_unpremultiply_refuted.

(** The repaired fast path (commit 83481fc) equals color.NRGBAModel for every
    valid premultiplied (channel, alpha) pair, uint32 wrap-around included. *)
Theorem C01_rgba_unpremultiply_exact_fixed : forall c a,
  0 <= c <= a -> a <= 255 -> fixed_fast_chan c a = nrgba_model_chan c a.
Proof. exact rgba_unpremultiply_exact_fixed. Qed.
Print Assumptions C01_rgba_unpremultiply_exact_fixed.

(** ** cleanupTransparentAreaLossless: the only permitted difference *)
Theorem C01_cleanup_exact : forall p, cleanup true p = p.
Proof. exact cleanup_exact. Qed.
Print Assumptions C01_cleanup_exact.

Theorem C01_cleanup_visible : forall exact p, pa p <> 0 -> cleanup exact p = p.
Proof. exact cleanup_visible. Qed.
Print Assumptions C01_cleanup_visible.

Theorem C01_cleanup_transparent : forall p, pa p = 0 -> cleanup false p = px_zero.
Proof. exact cleanup_transparent. Qed.
Print Assumptions C01_cleanup_transparent.

(** ** Encoder side of the LZ77 alphabets, tied to the constants of the source
    (regenerated on every run): every distance inside the encoder's window is
    written as code 120 + distance, which denotes that distance for every image
    width and whose prefix symbol is inside the 40-symbol distance alphabet; every
    match length up to the encoder's maximum has a symbol inside the 24-symbol
    length alphabet.  (Well-formed plans need exactly this: a used symbol must have
    a code word.) *)
Theorem C01_window_distance_symbol_in_alphabet : forall dist,
  1 <= dist <= WebpGen.Vp8lRoles.lossless_role_lz_window_max ->
  0 <= fst (fst (lz_prefix (WebpGen.Consts.lossless_CodeToPlaneCodesCount + dist))) < WebpGen.Consts.lossless_NumDistanceCodes.
Proof. exact window_distance_symbol_in_alphabet. Qed.
Print Assumptions C01_window_distance_symbol_in_alphabet.

Theorem C01_window_distance_code_denotes_distance : forall w dist,
  1 <= dist -> plane_to_dist w (120 + dist) = dist.
Proof. exact window_distance_code_denotes_distance. Qed.
Print Assumptions C01_window_distance_code_denotes_distance.

Theorem C01_max_length_symbol_in_alphabet : forall len,
  1 <= len <= WebpGen.Vp8lRoles.lossless_role_max_match_length ->
  0 <= fst (fst (lz_prefix len)) < WebpGen.Consts.lossless_NumLengthCodes.
Proof. exact max_length_symbol_in_alphabet. Qed.
Print Assumptions C01_max_length_symbol_in_alphabet.
