(** C08 — lossless animations play back as exactly the pictures that were added.
    Only statements, each closed by [exact <lemma>] and followed by
    [Print Assumptions]. *)
From Coq Require Import List ZArith.
From Webp Require Import Anim.Blend Anim.Canvas Anim.AnimDec Anim.AnimEncModel Anim.AnimEncSpec
  Anim.AnimEncLemmas Anim.AnimEncProofs Anim.AnimEncMain Anim.AnimEncWitness Anim.AnimEncLoops Anim.AnimDecProof Anim.AnimDecLoops Anim.AnimEncCodec.
From WebpGen Require Consts.
Import ListNotations.
Open Scope Z_scope.

(** For every lossless frame codec (decode after encode is the identity up to
    the colour of fully transparent pixels), canvas size, option record (any
    Kmin/Kmax, loop count 0..65535), non-empty list of frames (any sizes, any
    pixels, durations 0..2^24-1), every outcome of the encoder's size comparisons
    ([oracle], [simple]): what the decoder plays from the file written by
    NewEncoder / AddFrame* / Close is the show that was added — same canvas size;
    the same sequence of distinct pictures (fully transparent pixels compare equal);
    and, when there are at least two distinct pictures, the same display time for
    every picture (merged repeats and overflow filler frames included), the same
    loop count, and a real animation (not a still).
    Model of the code under test: [repaired]. *)
Theorem C08_anim_lossless_roundtrip :
  forall (rt_ll rt_ly : img -> img) (W H : Z) (opts : eopts) (frames : list (img * Z))
         (oracle : nat -> orc) (has_meta simple : bool) (st0 : est) (out : output),
    codec_lossless rt_ll ->
    wf_canvas_dims W H -> lossless_opts opts -> frames <> [] -> Forall wf_input frames ->
    new_encoder W H opts = Some st0 ->
    close has_meta simple (run_frames repaired oracle st0 frames) = Some out ->
    same_show W H (eo_loop opts) out (playback rt_ll rt_ly repaired out) (inputs_of W H frames).
Proof. exact anim_lossless_roundtrip. Qed.
Print Assumptions C08_anim_lossless_roundtrip.

(** The hypotheses are satisfiable and the conclusion is not trivial: the
    sessions of the two historical defects, on the repaired model. *)
Theorem C08_example_semitransparent_kept :
  option_map (map (fun e => nth 0 (fst e) px0)) (w1_played repaired)
  = Some [mkpx 10 20 30 128; mkpx 10 20 30 128].
Proof. exact w1_repaired_shows_128. Qed.
Print Assumptions C08_example_semitransparent_kept.

Theorem C08_example_filler_then_dispose :
  w2_last repaired = Some ([G;T;T;T; T;T;T;T; T;T;T;T; T;T;T;T], 10).
Proof. exact w2_repaired_clears_block. Qed.
Print Assumptions C08_example_filler_then_dispose.

(** Per-step lemmas. *)
Theorem C08_changed_rect_covers_diff : forall W H prev curr x y,
  0 < W -> 0 < H -> 0 <= x < W -> 0 <= y < H ->
  px_diff W prev curr x y = true -> in_rect (find_changed_rect W H prev curr) x y = true.
Proof. exact changed_rect_covers_diff. Qed.
Print Assumptions C08_changed_rect_covers_diff.

(** findChangedRect as the code runs it (first / last differing row, then the progressive
    narrowing loop over the changed rows with its early exit) computes the declarative
    bounding box the theorems above are stated about. *)
Theorem C08_find_changed_rect_loops_eq : forall W H prev curr,
  0 <= W -> find_changed_rect_loops W H prev curr = find_changed_rect W H prev curr.
Proof. exact find_changed_rect_loops_eq. Qed.
Print Assumptions C08_find_changed_rect_loops_eq.

(** The dispose-to-background simulation of encodeSubFrame (fillRect on a copy of the
    previous canvas) as the nested loops the code runs equals the pointwise [fill_impl]
    of the model (shared with the decoder, Anim/AnimDecLoops.v). *)
Theorem C08_dispose_fill_loops_eq : forall W H c r,
  wf_dims W H -> length c = Z.to_nat (W * H) -> fill_loops W H c r = fill_impl W H c r.
Proof. exact fill_loops_eq. Qed.
Print Assumptions C08_dispose_fill_loops_eq.

(** isCanvasIdentical: the pixel-by-pixel scan with early exit decides equality. *)
Theorem C08_canvas_identical_scan : forall a b, canvas_eqb a b = true <-> a = b.
Proof. exact canvas_eqb_eq. Qed.
Print Assumptions C08_canvas_identical_scan.

(** The cell-by-cell pixel loops of the encoder as the code runs them (nested index loops
    with in-place writes), equal to the pointwise definitions of the model:
    extractSubImage (fix 7a3566f), clearKeptPixels (fix 79df971, conditional in-place write
    bounded by picture and rectangle), the padding copy of addOptimizedFrame. *)
Theorem C08_extract_sub_loops_eq : forall W c r, extract_sub_loops W c r = extract_sub W c r.
Proof. exact extract_sub_loops_eq. Qed.
Print Assumptions C08_extract_sub_loops_eq.

Theorem C08_clear_kept_loops_eq : forall W sub base r,
  0 < iw sub -> 0 <= ih sub -> length (ipix sub) = Z.to_nat (iw sub * ih sub) ->
  clear_kept_loops W sub base r = clear_kept W sub base r.
Proof. exact clear_kept_loops_eq. Qed.
Print Assumptions C08_clear_kept_loops_eq.

Theorem C08_pad_loops_eq : forall W H i, 0 < W -> 0 <= H -> pad_loops W H i = pad W H i.
Proof. exact pad_loops_eq. Qed.
Print Assumptions C08_pad_loops_eq.

(** The blend-test scans (isLosslessBlendingPossible / isLossyBlendingPossible: row loop,
    column loop, return false at the first failing pixel) decide the pointwise condition. *)
Theorem C08_blend_scan_spec : forall r P,
  rect_forall r P = true <-> (forall x y, in_rect r x y = true -> P x y = true).
Proof. exact rect_forall_spec. Qed.
Print Assumptions C08_blend_scan_spec.

(** snapToEven + clipping: still inside the canvas, non-empty, covers the changed
    rectangle, and both offsets are even (so that the container's halved offsets
    read back exactly). *)
Theorem C08_snap_even_covers_and_offsets_even : forall W H r, good_rect W H r ->
  let r2 := intersect (snap_to_even r) (canvas_bounds W H) in
  good_rect W H r2 /\ rx0 r2 mod 2 = 0 /\ ry0 r2 mod 2 = 0 /\
  (forall x y, in_rect r x y = true -> in_rect r2 x y = true).
Proof. exact snap_clip_good. Qed.
Print Assumptions C08_snap_even_covers_and_offsets_even.

(** A pixel the blending test accepts is reproduced by blending the (possibly
    cleared, clearKeptPixels) sub-frame pixel over the canvas pixel. *)
Theorem C08_blend_candidate_sound : forall b t,
  lossless_px_ok b t = true -> norm_px (blend_spec (kept b t) b) = norm_px t.
Proof. exact (lossless_ok_sound norm_px). Qed.
Print Assumptions C08_blend_candidate_sound.

(** The defects of the code as pinned, as statements about the explicitly named
    variants [pinned] / [mkfixes true false false] of the model. *)
Theorem C08_anim_lossless_roundtrip_refuted_blend :
  ~ anim_lossless_roundtrip_statement pinned.
Proof. exact anim_lossless_roundtrip_refuted_blend. Qed.
Print Assumptions C08_anim_lossless_roundtrip_refuted_blend.

Theorem C08_blend_candidate_sound_refuted :
  exists s d, wf_px s /\ wf_px d /\ lossless_px_ok s d = true /\ blend_spec d s <> d.
Proof. exact blend_candidate_sound_refuted. Qed.
Print Assumptions C08_blend_candidate_sound_refuted.

Theorem C08_anim_lossless_roundtrip_refuted_filler :
  ~ anim_lossless_roundtrip_statement (mkfixes true false false).
Proof. exact anim_lossless_roundtrip_refuted_filler. Qed.
Print Assumptions C08_anim_lossless_roundtrip_refuted_filler.

(** AddFrame calls may fail: a failing frame encoder at any chosen calls ([fails]: the first
    encodeFrame of a step, the dispose-background candidate, the key-frame candidate, the
    re-encode inside encodeKeyframe) and the muxer's frame limit ([maxf], any value).  The
    file then plays back exactly the frames of the AddFrame calls that returned nil
    ([acc]), with their display times; a refused call leaves the animation as it was. *)
Theorem C08_anim_error_roundtrip :
  forall (rt_ll rt_ly : img -> img) (W H : Z) (opts : eopts) (frames : list (img * Z))
         (oracle : nat -> orc) (fails : nat -> efail) (maxf : Z) (has_meta simple : bool)
         (st0 stf : est) (acc : list (img * Z)) (out : output),
    codec_lossless rt_ll ->
    wf_canvas_dims W H -> lossless_opts opts -> Forall wf_input frames ->
    new_encoder W H opts = Some st0 ->
    run_e repaired true maxf oracle fails st0 frames = (stf, acc) ->
    close has_meta simple stf = Some out ->
    same_show W H (eo_loop opts) out (playback rt_ll rt_ly repaired out) (inputs_of W H acc).
Proof. exact anim_error_roundtrip. Qed.
Print Assumptions C08_anim_error_roundtrip.

(** The earlier order of operations (cap the previous frame's duration, then encode the
    overflow filler; before commit 60cfee7) does not have this property. *)
Theorem C08_anim_error_roundtrip_refuted_cap_first : ~ anim_error_roundtrip_statement false.
Proof. exact anim_error_roundtrip_refuted_cap_first. Qed.
Print Assumptions C08_anim_error_roundtrip_refuted_cap_first.

Theorem C08_example_failed_addframe :
  w4_show true = Some ([(mkimg 1 1 [R], 10); (mkimg 1 1 [G], 16777210)],
                       [([R], 10); ([G], 16777210)]).
Proof. exact w4_kept. Qed.
Print Assumptions C08_example_failed_addframe.

(** Histories that mix AddFrame with pre-encoded frames (AddRawFrame: a VP8L bitstream
    given by the picture it was encoded from, an even offset inside the canvas, blend,
    dispose, duration), with failing encoder calls and the muxer frame limit as above:
    the file plays back the reference show [ref_show] of the accepted calls (an AddFrame
    picture is the whole canvas; a raw frame is composited by the container rules), outside
    the class of the known finding raw-frames:canvas-size ([lone_small_raw_ok]). *)
Theorem C08_anim_mixed_roundtrip :
  forall (rt_ll rt_ly : img -> img) (W H : Z) (opts : eopts) (ops : list op)
         (oracle : nat -> orc) (fails : nat -> efail) (maxf : Z) (has_meta simple : bool)
         (st0 stf : est) (acc : list op) (out : output),
    codec_lossless rt_ll ->
    wf_canvas_dims W H -> lossless_opts opts -> Forall (AnimEncSpec.wf_op W H) ops ->
    new_encoder W H opts = Some st0 ->
    run_ops repaired maxf oracle fails st0 ops = (stf, acc) ->
    (true = true -> lone_small_raw_ok W H has_meta acc) ->
    close has_meta simple stf = Some out ->
    same_show W H (eo_loop opts) out (playback rt_ll rt_ly repaired out)
              (ref_show W H (blank W H, None) acc).
Proof. exact anim_mixed_roundtrip. Qed.
Print Assumptions C08_anim_mixed_roundtrip.

(** Without that hypothesis the statement is false (known finding raw-frames:canvas-size):
    a single 1x1 pre-encoded frame of duration 0 on a 4x2 canvas is written as a simple
    file whose canvas is 1x1. *)
Theorem C08_anim_mixed_roundtrip_refuted_lone_small_raw : ~ anim_mixed_roundtrip_statement false.
Proof. exact anim_mixed_roundtrip_refuted_lone_small_raw. Qed.
Print Assumptions C08_anim_mixed_roundtrip_refuted_lone_small_raw.

Theorem C08_example_mixed_history :
  w6_show = Some ([([R;R;R;R; R;R;R;R], 10); ([R;R;G;G; R;R;G;G], 20); ([R;R;T;R; R;R;R;G], 30)],
                  [([R;R;R;R; R;R;R;R], 10); ([R;R;G;G; R;R;G;G], 20); ([R;R;T;R; R;R;R;G], 30)]).
Proof. exact w6_mixed_history_plays_the_reference_show. Qed.
Print Assumptions C08_example_mixed_history.

(** Tie to the source: the limits the model uses are the constants of the code
    (regenerated on every run). *)
Theorem C08_limits_match_source :
  max_duration = WebpGen.Consts.animation_maxDuration /\
  max_loop_count = WebpGen.Consts.animation_maxLoopCount /\
  max_canvas_dimension = WebpGen.Consts.animation_maxCanvasDimension /\
  max_duration = WebpGen.Consts.mux_maxDuration /\
  max_frames = WebpGen.Consts.container_MaxFrames /\
  max_position_off = WebpGen.Consts.container_MaxPositionOff.
Proof. repeat split; reflexivity. Qed.
Print Assumptions C08_limits_match_source.

(** On the VP8L codec model (Vp8l/Vp8lRoundtrip.v, decode after emit for any valid encoder
    choices) instead of the codec hypothesis. *)
Theorem C08_anim_mixed_roundtrip_on_models :
  forall o choose colour achoose, ll_choices_valid o choose ->
  forall (W H : Z) (opts : eopts) (ops : list op)
         (oracle : nat -> orc) (fails : nat -> efail) (maxf : Z) (has_meta simple : bool)
         (st0 stf : est) (acc : list op) (out : output),
    wf_canvas_dims W H -> lossless_opts opts -> Forall (AnimEncSpec.wf_op W H) ops ->
    new_encoder W H opts = Some st0 ->
    run_ops repaired maxf oracle fails st0 ops = (stf, acc) ->
    lone_small_raw_ok W H has_meta acc ->
    close has_meta simple stf = Some out ->
    same_show W H (eo_loop opts) out
      (playback (rt_ll_model o choose) (rt_ly_model colour achoose) repaired out)
      (ref_show W H (blank W H, None) acc).
Proof. exact anim_mixed_roundtrip_on_models. Qed.
Print Assumptions C08_anim_mixed_roundtrip_on_models.
