(** C08 — lossless animations play back as exactly the pictures that were added.
    Only statements, each closed by [exact <lemma>] and followed by
    [Print Assumptions]. *)
From Coq Require Import List ZArith.
From Webp Require Import Anim.Blend Anim.Canvas Anim.AnimDec Anim.AnimEncModel Anim.AnimEncSpec
  Anim.AnimEncWitness.
Import ListNotations.
Open Scope Z_scope.

(** The statement is false of the code as pinned: an unchanged semi-transparent
    pixel inside a blended sub-frame is composited onto itself (alpha 128 -> 192). *)
Theorem C08_anim_lossless_roundtrip_refuted_blend :
  ~ anim_lossless_roundtrip_statement pinned.
Proof. exact anim_lossless_roundtrip_refuted_blend. Qed.
Print Assumptions C08_anim_lossless_roundtrip_refuted_blend.

Theorem C08_blend_candidate_sound_refuted :
  exists s d, wf_px s /\ wf_px d /\ lossless_px_ok s d = true /\ blend_spec d s <> d.
Proof. exact blend_candidate_sound_refuted. Qed.
Print Assumptions C08_blend_candidate_sound_refuted.

(** ... and still false with only the blend test repaired: after a duration-overflow
    filler frame prevFrameRect is stale, the dispose-to-background candidate is
    simulated on the wrong rectangle. *)
Theorem C08_anim_lossless_roundtrip_refuted_filler :
  ~ anim_lossless_roundtrip_statement (mkfixes true false false).
Proof. exact anim_lossless_roundtrip_refuted_filler. Qed.
Print Assumptions C08_anim_lossless_roundtrip_refuted_filler.
