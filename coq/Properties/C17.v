(** C17 — Decoding a truncated file is all-or-nothing (container / glue layer).
    Only statements, each closed by [exact <lemma>] and followed by
    [Print Assumptions].  The pixel codecs are parameters of the glue model;
    their behaviour on truncated bitstreams is evaluated exhaustively (every
    prefix of every generated file) by harness/c17 on the real code. *)
From Coq Require Import List ZArith.
From Webp Require Import Base.Res Base.Bytes Riff.ParserModel Riff.FeaturesModel Riff.PrefixProofs Riff.ParserSafety.
Import ListNotations.
Open Scope Z_scope.

(** Repaired parser: for every byte string parsed as a still (a top-level image
    chunk was found) and every proper prefix, the parser fails or returns the
    identical result: same features, one frame with the same payload and alpha
    bytes. *)
Theorem C17_prefix_all_or_nothing : forall bs p r,
  parse_ex true bs = Ok (r, KStill) -> proper_prefix p bs ->
  (exists e, parse_ex true p = Err e) \/ parse_ex true p = Ok (r, KStill).
Proof. exact prefix_all_or_nothing. Qed.
Print Assumptions C17_prefix_all_or_nothing.

(** Both variants: the only way a prefix of an accepted still can be accepted
    with a different result is the pinned parser's "chunk list ended before the
    image chunk" success with an empty frame list. *)
Theorem C17_prefix_classified : forall fx bs p r,
  parse_ex fx bs = Ok (r, KStill) -> proper_prefix p bs ->
  (exists e, parse_ex fx p = Err e) \/ parse_ex fx p = Ok (r, KStill) \/
  (fx = false /\ exists r', parse_ex fx p = Ok (r', KList) /\ pFrames r' = [] /\
                           fHasAnim (pFeat r') = false).
Proof. exact prefix_classified. Qed.
Print Assumptions C17_prefix_classified.

Theorem C17_get_features_prefix : forall bs p r,
  parse_ex true bs = Ok (r, KStill) -> proper_prefix p bs ->
  (exists e, get_features true p = Err e) \/ get_features true p = get_features true bs.
Proof. exact get_features_prefix. Qed.
Print Assumptions C17_get_features_prefix.

Theorem C17_decode_config_prefix : forall fa bs p r,
  parse_ex true bs = Ok (r, KStill) -> proper_prefix p bs ->
  (exists e, decode_config fa true p = Err e) \/ decode_config fa true p = decode_config fa true bs.
Proof. exact decode_config_prefix. Qed.
Print Assumptions C17_decode_config_prefix.

(** Decode, for every choice of the three codecs: the prefix is rejected or the
    codecs receive identical bytes and the same image results. *)
Theorem C17_decode_prefix : forall (Pix : Type) (lossy_dec lossless_dec : list Z -> Res (Z * Z * Pix))
    (alpha_dec : list Z -> Z -> Z -> Res Pix) bs p r img,
  parse_ex true bs = Ok (r, KStill) -> proper_prefix p bs ->
  decode_bytes lossy_dec lossless_dec alpha_dec true bs = Ok img ->
  (exists e, decode_bytes lossy_dec lossless_dec alpha_dec true p = Err e) \/
  decode_bytes lossy_dec lossless_dec alpha_dec true p = Ok img.
Proof. exact decode_prefix. Qed.
Print Assumptions C17_decode_prefix.

(** On every byte string (hence on every prefix of every file) the parser model
    returns a value or an error class: no slice / index expression of parser.go is
    ever out of range, and the chunk loops terminate within their fuel. *)
Theorem C17_parser_total : forall fx data, bytes_ok data ->
  parse_ex fx data <> Panic /\ parse_ex fx data <> Err EOutOfFuel.
Proof. exact parse_ex_safe. Qed.
Print Assumptions C17_parser_total.

(** Codec layer, VP8L (specification decoder Vp8l.Vp8lSpec.decode, tied to
    internal/lossless by C03's differential execution): a byte string that decodes
    still decodes, to the same image, when bytes are appended.  Hence a proper
    prefix of a VP8L stream is rejected or yields exactly the picture of the
    complete stream. *)
From Webp Require Vp8l.Vp8lSpec Riff.PrefixVp8l Alpha.AlphaModel Alpha.AlphaProofs.
Theorem C17_vp8l_decode_monotone : forall d ext img,
  Vp8lSpec.decode d = Ok img -> Vp8lSpec.decode (d ++ ext) = Ok img.
Proof. exact PrefixVp8l.vp8l_decode_monotone. Qed.
Print Assumptions C17_vp8l_decode_monotone.

Theorem C17_vp8l_prefix_all_or_nothing : forall full p ext img,
  full = p ++ ext -> Vp8lSpec.decode full = Ok img ->
  (exists e, Vp8lSpec.decode p = Err e) \/ Vp8lSpec.decode p = Ok img \/ Vp8lSpec.decode p = Panic.
Proof. exact PrefixVp8l.vp8l_prefix_all_or_nothing. Qed.
Print Assumptions C17_vp8l_prefix_all_or_nothing.

(** Codec layer, ALPH with a raw payload (model Alpha.AlphaModel.decode, C07 area):
    fewer than w*h bytes => error; w*h bytes or more => the same plane whatever
    follows. *)
Theorem C17_alph_raw_truncated : forall (ldec : Z -> Z -> list Z -> option (list Z)) hd payload w h,
  hd mod 4 = 0 -> 1 <= w -> 1 <= h -> w * h <= 2^30 -> Z.of_nat (length payload) < w * h ->
  exists e, AlphaModel.decode ldec (hd :: payload) w h = Err e.
Proof. exact AlphaProofs.decode_raw_truncated. Qed.
Print Assumptions C17_alph_raw_truncated.

Theorem C17_alph_raw_monotone : forall (ldec : Z -> Z -> list Z -> option (list Z)) hd payload ext w h plane,
  hd mod 4 = 0 ->
  AlphaModel.decode ldec (hd :: payload) w h = Ok plane ->
  AlphaModel.decode ldec (hd :: payload ++ ext) w h = Ok plane.
Proof. exact PrefixVp8l.alph_raw_monotone. Qed.
Print Assumptions C17_alph_raw_monotone.

(** ALPH with any payload kind, for every lossless coder that is itself
    prefix-monotone (the VP8L specification decoder is, by the theorem above). *)
Theorem C17_alph_monotone : forall (ldec : Z -> Z -> list Z -> option (list Z)),
  (forall w h p ext g, ldec w h p = Some g -> ldec w h (p ++ ext) = Some g) ->
  forall hd payload ext w h plane,
    AlphaModel.decode ldec (hd :: payload) w h = Ok plane ->
    AlphaModel.decode ldec (hd :: payload ++ ext) w h = Ok plane.
Proof. exact PrefixVp8l.alph_monotone. Qed.
Print Assumptions C17_alph_monotone.

(** Codec layer, VP8 (lossy): the boolean entropy decoder of RFC 6386
    (Vp8.Vp8Bool, the VP8 builder's specification decoder).  It is NOT
    prefix-monotone by itself -- beyond the data it reads zero bytes -- but every
    literal / tree symbol decoded without raising the past-end flag is decoded
    identically when arbitrary bytes are appended, with the flag still clear. *)
From Webp Require Vp8.Vp8Bool Riff.PrefixVp8Bool.
Theorem C17_vp8_bool_literal_prefix_stable : forall l ext k v d1,
  bytes_ok l -> bytes_ok ext ->
  Vp8Bool.read_lit k (Vp8Bool.bd_init l) = (v, d1) -> Vp8Bool.bd_past d1 = false ->
  exists d1', Vp8Bool.read_lit k (Vp8Bool.bd_init (l ++ ext)) = (v, d1') /\ Vp8Bool.bd_past d1' = false.
Proof. exact PrefixVp8Bool.bool_literal_prefix_stable. Qed.
Print Assumptions C17_vp8_bool_literal_prefix_stable.

Theorem C17_vp8_bool_tree_prefix_stable :
  forall (A : Type) (t : Vp8Bool.tree A) probs l ext a d1,
  bytes_ok l -> bytes_ok ext -> Forall (fun p => 0 <= p <= 255) probs ->
  Vp8Bool.read_tree t probs (Vp8Bool.bd_init l) = (a, d1) -> Vp8Bool.bd_past d1 = false ->
  exists d1', Vp8Bool.read_tree t probs (Vp8Bool.bd_init (l ++ ext)) = (a, d1') /\ Vp8Bool.bd_past d1' = false.
Proof. exact PrefixVp8Bool.bool_tree_prefix_stable. Qed.
Print Assumptions C17_vp8_bool_tree_prefix_stable.

(** Codec layer, VP8 (lossy), whole key frame (Vp8.Vp8Spec, the VP8 builder's
    specification decoder: frame tag, first-partition header, partition table,
    per-macroblock mode / token parsing, reconstruction, loop filter).
    Vp8Spec.decode_yuv turns a past-end read in any partition into E_TRUNC, and
    appending bytes to a frame only extends its last token partition; so a byte
    string that decodes still decodes, to the same planes, when bytes are
    appended, and a prefix of a frame is rejected or decodes to the picture of the
    complete frame.  The same holds for the variant of the specification with the
    Go decoder's documented deviations (decode_go), given that no partition was
    read past its end. *)
From Webp Require Vp8.Vp8Spec Riff.PrefixVp8Frame.
Theorem C17_vp8_frame_prefix_monotone : forall d ext r,
  bytes_ok d -> bytes_ok ext ->
  Vp8Spec.decode_yuv d = Ok r -> Vp8Spec.decode_yuv (d ++ ext) = Ok r.
Proof. exact PrefixVp8Frame.vp8_frame_prefix_monotone. Qed.
Print Assumptions C17_vp8_frame_prefix_monotone.

Theorem C17_vp8_prefix_all_or_nothing : forall file n r,
  bytes_ok file -> Vp8Spec.decode_yuv (firstn n file) = Ok r -> Vp8Spec.decode_yuv file = Ok r.
Proof. exact PrefixVp8Frame.vp8_prefix_all_or_nothing. Qed.
Print Assumptions C17_vp8_prefix_all_or_nothing.

Theorem C17_vp8_decode_go_prefix : forall d ext r,
  bytes_ok d -> bytes_ok ext ->
  Vp8Spec.decode_go d = Ok r -> Vp8Spec.dc_past_end r = false -> Vp8Spec.decode_go (d ++ ext) = Ok r.
Proof. exact PrefixVp8Frame.vp8_decode_go_prefix. Qed.
Print Assumptions C17_vp8_decode_go_prefix.

Theorem C17_vp8_bool_past_end_differs :
  exists l ext k,
    fst (Vp8Bool.read_lit k (Vp8Bool.bd_init l)) <> fst (Vp8Bool.read_lit k (Vp8Bool.bd_init (l ++ ext))) /\
    Vp8Bool.bd_past (snd (Vp8Bool.read_lit k (Vp8Bool.bd_init l))) = true.
Proof. exact PrefixVp8Bool.bool_past_end_differs. Qed.
Print Assumptions C17_vp8_bool_past_end_differs.

(** Codec layer, the Go reader itself: internal/bitio.BoolReader as modelled by the VP8
    builder (Vp8.Vp8GoReader: 64-bit value register, 7-byte bulk loads, single-byte
    loads near the end, [gr_eof] = the flag behind BoolReader.EOF(), which
    lossy.Decoder checks after the headers and after every macroblock).  GetBit sets
    the flag exactly when it needs a byte and none is left and never clears it; and
    for every decoding strategy (the probabilities may depend on the bits read so
    far): if NewBoolReader(l) followed by the reads ends with EOF() == false, then
    NewBoolReader(l ++ ext) followed by the same reads returns the same bits with
    EOF() == false.  Hypothesis on the data: non-empty, first byte not 0xFF (the
    arithmetic decoder's invariant value < range, which every encoder output has).
    Without the flag the reader is not prefix-stable (witness). *)
From Webp Require Vp8.Vp8BoolAbs Vp8.Vp8GoReader Riff.PrefixBitio.
Theorem C17_go_bool_reader_eof_flag : forall p g,
  Vp8GoReader.gr_eof (snd (Vp8GoReader.gr_bit p g)) =
  (Vp8GoReader.gr_eof g || ((Vp8GoReader.gr_bits g <? 0) && PrefixBitio.is_nil (Vp8GoReader.gr_rest g)))%bool.
Proof. exact PrefixBitio.gr_bit_eof. Qed.
Print Assumptions C17_go_bool_reader_eof_flag.

Theorem C17_go_bool_reader_prefix_stable : forall pr l ext bs g1,
  Forall Vp8BoolAbs.is_byte l -> Forall Vp8BoolAbs.is_byte ext -> l <> [] ->
  Vp8BoolAbs.bval l < 255 * 2 ^ (8 * (Z.of_nat (length l) - 1)) -> PrefixBitio.prog_ok pr ->
  PrefixBitio.run pr (PrefixBitio.gr_new l) = (bs, g1) -> Vp8GoReader.gr_eof g1 = false ->
  exists g1', PrefixBitio.run pr (PrefixBitio.gr_new (l ++ ext)) = (bs, g1') /\ Vp8GoReader.gr_eof g1' = false.
Proof. exact PrefixBitio.go_bool_reader_prefix_stable. Qed.
Print Assumptions C17_go_bool_reader_prefix_stable.

Theorem C17_go_bool_reader_past_end_differs :
  fst (PrefixBitio.run (PrefixBitio.lit 12) (PrefixBitio.gr_new [0])) <>
  fst (PrefixBitio.run (PrefixBitio.lit 12) (PrefixBitio.gr_new [0; 255])) /\
  Vp8GoReader.gr_eof (snd (PrefixBitio.run (PrefixBitio.lit 12) (PrefixBitio.gr_new [0]))) = true.
Proof. exact PrefixBitio.go_bool_reader_past_end_differs. Qed.
Print Assumptions C17_go_bool_reader_past_end_differs.

(** Pinned tree (parser before commit 86109c7, [pinned_*] definitions): the
    statement is false (finding, repaired). *)
Theorem C17_features_prefix_refuted :
  exists bs p r g g',
    pinned_parse_ex bs = Ok (r, KStill) /\ proper_prefix p bs /\
    pinned_get_features bs = Ok g /\ pinned_get_features p = Ok g' /\
    gFrames g = 1 /\ gFrames g' = 0.
Proof. exact features_prefix_refuted. Qed.
Print Assumptions C17_features_prefix_refuted.

Theorem C17_config_prefix_refuted :
  exists bs p r c c',
    pinned_parse_ex bs = Ok (r, KStill) /\ proper_prefix p bs /\
    pinned_decode_config bs = Ok c /\ pinned_decode_config p = Ok c' /\
    cModel c = CM_NRGBA /\ cModel c' = CM_YCbCr.
Proof. exact config_prefix_refuted. Qed.
Print Assumptions C17_config_prefix_refuted.

(** Tie to the source: every constant of the parser model equals the value the
    translator reads from internal/container (regenerated on every run). *)
From WebpGen Require Consts.
Theorem C17_consts_match_source :
  [FourCCRIFF; FourCCWEBP; FourCCVP8; FourCCVP8L; FourCCVP8X; FourCCALPH; FourCCANIM; FourCCANMF;
   FourCCICCP; FourCCEXIF; FourCCXMP; ChunkHeaderSize; RIFFHeaderSize; VP8XChunkSize; ANIMChunkSize;
   ANMFChunkSize; VP8FrameHeaderSize; VP8LFrameHeaderSize; VP8LMagicByte; MaxChunkPayload;
   MaxImageArea; MaxFrames; MaxChunks; MaxMetadataSize; 10289450; 62] =
  [Consts.container_FourCCRIFF; Consts.container_FourCCWEBP; Consts.container_FourCCVP8;
   Consts.container_FourCCVP8L; Consts.container_FourCCVP8X; Consts.container_FourCCALPH;
   Consts.container_FourCCANIM; Consts.container_FourCCANMF; Consts.container_FourCCICCP;
   Consts.container_FourCCEXIF; Consts.container_FourCCXMP; Consts.container_ChunkHeaderSize;
   Consts.container_RIFFHeaderSize; Consts.container_VP8XChunkSize; Consts.container_ANIMChunkSize;
   Consts.container_ANMFChunkSize; Consts.container_VP8FrameHeaderSize;
   Consts.container_VP8LFrameHeaderSize; Consts.container_VP8LMagicByte;
   Consts.container_MaxChunkPayload; Consts.container_MaxImageArea; Consts.container_MaxFrames;
   Consts.container_MaxChunks; Consts.container_MaxMetadataSize; Consts.container_VP8Signature;
   Consts.container_AllValidFlags].
Proof. reflexivity. Qed.
Print Assumptions C17_consts_match_source.
