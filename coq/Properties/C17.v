(** C17 — Decoding a truncated file is all-or-nothing (container / glue layer).
    Only statements, each closed by [exact <lemma>] and followed by
    [Print Assumptions].  The pixel codecs are parameters of the glue model;
    their behaviour on truncated bitstreams is evaluated exhaustively (every
    prefix of every generated file) by harness/c17 on the real code. *)
From Coq Require Import List ZArith.
From Webp Require Import Base.Res Base.Bytes Riff.ParserModel Riff.FeaturesModel Riff.PrefixProofs Riff.ParserSafety.
Import ListNotations.
Open Scope Z_scope.

(** Repaired parser: for every byte string parsed as a still (a top-level image
    chunk was found) and every proper prefix, the parser fails or returns the
    identical result: same features, one frame with the same payload and alpha
    bytes. *)
Theorem C17_prefix_all_or_nothing : forall bs p r,
  parse_ex true bs = Ok (r, KStill) -> proper_prefix p bs ->
  (exists e, parse_ex true p = Err e) \/ parse_ex true p = Ok (r, KStill).
Proof. exact prefix_all_or_nothing. Qed.
Print Assumptions C17_prefix_all_or_nothing.

(** Both variants: the only way a prefix of an accepted still can be accepted
    with a different result is the pinned parser's "chunk list ended before the
    image chunk" success with an empty frame list. *)
Theorem C17_prefix_classified : forall fx bs p r,
  parse_ex fx bs = Ok (r, KStill) -> proper_prefix p bs ->
  (exists e, parse_ex fx p = Err e) \/ parse_ex fx p = Ok (r, KStill) \/
  (fx = false /\ exists r', parse_ex fx p = Ok (r', KList) /\ pFrames r' = [] /\
                           fHasAnim (pFeat r') = false).
Proof. exact prefix_classified. Qed.
Print Assumptions C17_prefix_classified.

Theorem C17_get_features_prefix : forall bs p r,
  parse_ex true bs = Ok (r, KStill) -> proper_prefix p bs ->
  (exists e, get_features true p = Err e) \/ get_features true p = get_features true bs.
Proof. exact get_features_prefix. Qed.
Print Assumptions C17_get_features_prefix.

Theorem C17_decode_config_prefix : forall fa bs p r,
  parse_ex true bs = Ok (r, KStill) -> proper_prefix p bs ->
  (exists e, decode_config fa true p = Err e) \/ decode_config fa true p = decode_config fa true bs.
Proof. exact decode_config_prefix. Qed.
Print Assumptions C17_decode_config_prefix.

(** Decode, for every choice of the three codecs: the prefix is rejected or the
    codecs receive identical bytes and the same image results. *)
Theorem C17_decode_prefix : forall (Pix : Type) (lossy_dec lossless_dec : list Z -> Res (Z * Z * Pix))
    (alpha_dec : list Z -> Z -> Z -> Res Pix) bs p r img,
  parse_ex true bs = Ok (r, KStill) -> proper_prefix p bs ->
  decode_bytes lossy_dec lossless_dec alpha_dec true bs = Ok img ->
  (exists e, decode_bytes lossy_dec lossless_dec alpha_dec true p = Err e) \/
  decode_bytes lossy_dec lossless_dec alpha_dec true p = Ok img.
Proof. exact decode_prefix. Qed.
Print Assumptions C17_decode_prefix.

(** On every byte string (hence on every prefix of every file) the parser model
    returns a value or an error class: no slice / index expression of parser.go is
    ever out of range, and the chunk loops terminate within their fuel. *)
Theorem C17_parser_total : forall fx data, bytes_ok data ->
  parse_ex fx data <> Panic /\ parse_ex fx data <> Err EOutOfFuel.
Proof. exact parse_ex_safe. Qed.
Print Assumptions C17_parser_total.

(** Pinned tree (parser before commit 86109c7, [pinned_*] definitions): the
    statement is false (finding, repaired). *)
Theorem C17_features_prefix_refuted :
  exists bs p r g g',
    pinned_parse_ex bs = Ok (r, KStill) /\ proper_prefix p bs /\
    pinned_get_features bs = Ok g /\ pinned_get_features p = Ok g' /\
    gFrames g = 1 /\ gFrames g' = 0.
Proof. exact features_prefix_refuted. Qed.
Print Assumptions C17_features_prefix_refuted.

Theorem C17_config_prefix_refuted :
  exists bs p r c c',
    pinned_parse_ex bs = Ok (r, KStill) /\ proper_prefix p bs /\
    pinned_decode_config bs = Ok c /\ pinned_decode_config p = Ok c' /\
    cModel c = CM_NRGBA /\ cModel c' = CM_YCbCr.
Proof. exact config_prefix_refuted. Qed.
Print Assumptions C17_config_prefix_refuted.

(** Tie to the source: every constant of the parser model equals the value the
    translator reads from internal/container (regenerated on every run). *)
From WebpGen Require Consts.
Theorem C17_consts_match_source :
  [FourCCRIFF; FourCCWEBP; FourCCVP8; FourCCVP8L; FourCCVP8X; FourCCALPH; FourCCANIM; FourCCANMF;
   FourCCICCP; FourCCEXIF; FourCCXMP; ChunkHeaderSize; RIFFHeaderSize; VP8XChunkSize; ANIMChunkSize;
   ANMFChunkSize; VP8FrameHeaderSize; VP8LFrameHeaderSize; VP8LMagicByte; MaxChunkPayload;
   MaxImageArea; MaxFrames; MaxChunks; MaxMetadataSize; 10289450; 62] =
  [Consts.container_FourCCRIFF; Consts.container_FourCCWEBP; Consts.container_FourCCVP8;
   Consts.container_FourCCVP8L; Consts.container_FourCCVP8X; Consts.container_FourCCALPH;
   Consts.container_FourCCANIM; Consts.container_FourCCANMF; Consts.container_FourCCICCP;
   Consts.container_FourCCEXIF; Consts.container_FourCCXMP; Consts.container_ChunkHeaderSize;
   Consts.container_RIFFHeaderSize; Consts.container_VP8XChunkSize; Consts.container_ANIMChunkSize;
   Consts.container_ANMFChunkSize; Consts.container_VP8FrameHeaderSize;
   Consts.container_VP8LFrameHeaderSize; Consts.container_VP8LMagicByte;
   Consts.container_MaxChunkPayload; Consts.container_MaxImageArea; Consts.container_MaxFrames;
   Consts.container_MaxChunks; Consts.container_MaxMetadataSize; Consts.container_VP8Signature;
   Consts.container_AllValidFlags].
Proof. reflexivity. Qed.
Print Assumptions C17_consts_match_source.
