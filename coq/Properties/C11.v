(** C11 — results do not depend on what was encoded or decoded before.
    Only statements, each closed by [exact <lemma>] and followed by
    [Print Assumptions].  The lists [F.*] are regenerated from the Go source
    on every run (tools/gosrc2v/fields.go → Gen/Fields.v); the classification
    tables are hand-written (theories/Conc/PoolFieldClass.v). *)
From Coq Require Import String List Bool.
From Webp Require Import Conc.PoolModel Conc.PoolFieldClass Conc.PoolSkel Conc.PoolProofs.
From WebpGen Require Fields Skel Owner Globals.
Import ListNotations.
Open Scope string_scope.
Open Scope list_scope.

(** * every sync.Pool of the source is modelled *)
Theorem C11_pools_all_modelled : WebpGen.Fields.sync_pools = modelled_pools.
Proof. exact pools_all_modelled. Qed.
Print Assumptions C11_pools_all_modelled.

(** * every struct field of every pooled type has a line in the classification table
    (on failure the error message lists the unknown - new or renamed - fields) *)
Theorem C11_every_field_classified :
  unclassified F.lossy_VP8Encoder_fields class_VP8Encoder = [] /\
  unclassified F.lossy_TokenBuffer_fields class_TokenBuffer = [] /\
  unclassified F.lossy_Decoder_fields class_lossy_Decoder = [] /\
  unclassified F.lossless_Encoder_fields class_lossless_Encoder = [] /\
  unclassified F.lossless_Decoder_fields class_lossless_Decoder = [] /\
  unclassified F.lossy_parallelState_fields class_parallelState = [] /\
  unclassified F.lossy_RowWorker_fields class_RowWorker = [] /\
  unclassified F.lossy_importUVWorker_fields class_importUVWorker = [] /\
  unclassified F.bitio_BoolWriter_fields class_BoolWriter = [] /\
  unclassified F.root_argbBuf_fields class_argbBuf = [].
Proof. exact unknown_fields_classify_them_in_PoolFieldClass. Qed.
Print Assumptions C11_every_field_classified.

(** * reset completeness, per pooled type: every field of the regenerated field
    list is classified; every Config/State field is (strongly) written on the
    acquire path; every External field is cleared on release. *)
(** lossy.VP8Encoder and the TokenBuffer nested in it (its reset is delegated to
    TokenBuffer.Reset, which counts only if that reset is itself complete).
    History: on the tree before fix f63046c this statement was refuted — Reset did
    not re-initialise [mbStart] (written only for macroblocks that record tokens,
    read for every macroblock by EmitTokensPartitioned). *)
Theorem C11_reset_complete_TokenBuffer :
  reset_complete_b F.lossy_TokenBuffer_fields class_TokenBuffer assigned_TokenBuffer [] = true.
Proof. exact reset_complete_TokenBuffer. Qed.
Print Assumptions C11_reset_complete_TokenBuffer.

Theorem C11_reset_complete_VP8Encoder :
  reset_complete_b F.lossy_VP8Encoder_fields class_VP8Encoder assigned_VP8Encoder released_VP8Encoder = true.
Proof. exact reset_complete_VP8Encoder. Qed.
Print Assumptions C11_reset_complete_VP8Encoder.

Theorem C11_acquire_path_VP8Encoder :
  subset acquire_calls_VP8Encoder F.lossy_VP8Encoder_NewEncoder_calls = true /\
  subset acquire_calls_VP8Encoder F.lossy_VP8Encoder_NewEncoderFromYUV_calls = true.
Proof. exact acquire_path_VP8Encoder. Qed.
Print Assumptions C11_acquire_path_VP8Encoder.

Theorem C11_reset_complete_lossless_Encoder :
  reset_complete_b F.lossless_Encoder_fields class_lossless_Encoder
                   assigned_lossless_Encoder released_lossless_Encoder = true.
Proof. exact reset_complete_lossless_Encoder. Qed.
Print Assumptions C11_reset_complete_lossless_Encoder.

Theorem C11_reset_complete_lossless_Decoder :
  reset_complete_b F.lossless_Decoder_fields class_lossless_Decoder
                   assigned_lossless_Decoder released_lossless_Decoder = true.
Proof. exact reset_complete_lossless_Decoder. Qed.
Print Assumptions C11_reset_complete_lossless_Decoder.

Theorem C11_reset_complete_parallelState :
  reset_complete_b F.lossy_parallelState_fields class_parallelState assigned_parallelState
                   (strongly_written F.lossy_parallelState_putParallelState_writes) = true.
Proof. exact reset_complete_parallelState. Qed.
Print Assumptions C11_reset_complete_parallelState.

Theorem C11_reset_complete_RowWorker :
  reset_complete_b F.lossy_RowWorker_fields class_RowWorker assigned_RowWorker [] = true.
Proof. exact reset_complete_RowWorker. Qed.
Print Assumptions C11_reset_complete_RowWorker.

Theorem C11_reset_complete_importUVWorker :
  reset_complete_b F.lossy_importUVWorker_fields class_importUVWorker [] [] = true.
Proof. exact reset_complete_importUVWorker. Qed.
Print Assumptions C11_reset_complete_importUVWorker.

Theorem C11_reset_complete_BoolWriter :
  reset_complete_b F.bitio_BoolWriter_fields class_BoolWriter assigned_BoolWriter [] = true.
Proof. exact reset_complete_BoolWriter. Qed.
Print Assumptions C11_reset_complete_BoolWriter.

Theorem C11_reset_complete_argbBuf :
  reset_complete_b F.root_argbBuf_fields class_argbBuf assigned_argbBuf [] = true.
Proof. exact reset_complete_argbBuf. Qed.
Print Assumptions C11_reset_complete_argbBuf.

(** lossy.Decoder.  History: refuted before fix fa3b99c — [intraL] (left intra
    modes, read by the first parseIntraModeRow of a frame, restored to DC only by
    initScanline at the end of every completed row) was not re-initialised on
    acquire, so a decode that failed mid-row left stale modes for the next decode. *)
Theorem C11_reset_complete_lossy_Decoder :
  reset_complete_b F.lossy_Decoder_fields class_lossy_Decoder assigned_lossy_Decoder released_lossy_Decoder = true.
Proof. exact reset_complete_lossy_Decoder. Qed.
Print Assumptions C11_reset_complete_lossy_Decoder.

(** no Config/State field of any pooled codec object is left alone by its acquire path *)
Theorem C11_nothing_unreset :
  unreset_state F.lossy_Decoder_fields class_lossy_Decoder assigned_lossy_Decoder = [] /\
  unreset_state F.lossy_VP8Encoder_fields class_VP8Encoder assigned_VP8Encoder = [] /\
  unreset_state F.lossy_TokenBuffer_fields class_TokenBuffer assigned_TokenBuffer = [] /\
  unreset_state F.lossless_Encoder_fields class_lossless_Encoder assigned_lossless_Encoder = [] /\
  unreset_state F.lossless_Decoder_fields class_lossless_Decoder assigned_lossless_Decoder = [].
Proof. exact nothing_unreset. Qed.
Print Assumptions C11_nothing_unreset.

(** references to caller data are cleared by the release functions themselves *)
Theorem C11_released_external_cleared :
  subset (fields_of_class External class_lossy_Decoder) released_lossy_Decoder = true /\
  subset (fields_of_class External class_lossless_Decoder) released_lossless_Decoder = true /\
  subset ["config"; "argb"; "argbOrig"; "palette"] released_lossless_Encoder = true.
Proof. exact (conj released_lossy_Decoder_external (conj released_lossless_Decoder_external released_lossless_Encoder_external)). Qed.
Print Assumptions C11_released_external_cleared.

(** * ConstZero fields are allocated once and never written: [yuvP] of the lossy
    encoder is the only one; the regenerated list of EVERY access to it in the package
    equals the modelled one (allocation; prediction buffer of PickBestI4Mode), and no
    regenerated write list of the acquire / import / encode / release functions names
    it.  A future write to it, or handing it to another callee, breaks this. *)
Theorem C11_constzero_fields_never_written :
  fields_of_class ConstZero class_VP8Encoder = ["yuvP"] /\
  F.lossy_VP8Encoder_yuvP_accesses = [("allocateBuffers", "set"); ("tryI4Modes", "arg:PickBestI4Mode#2")] /\
  forallb (fun w => forallb (fun f => negb (mem f (written w))) (fields_of_class ConstZero class_VP8Encoder))
          all_VP8Encoder_write_lists_but_alloc = true /\
  subset (fields_of_class ConstZero class_VP8Encoder) (strongly_written F.lossy_VP8Encoder_allocateBuffers_writes) = true /\
  fields_of_class ConstZero class_TokenBuffer ++ fields_of_class ConstZero class_lossy_Decoder
  ++ fields_of_class ConstZero class_lossless_Encoder ++ fields_of_class ConstZero class_lossless_Decoder
  ++ fields_of_class ConstZero class_parallelState ++ fields_of_class ConstZero class_RowWorker
  ++ fields_of_class ConstZero class_importUVWorker ++ fields_of_class ConstZero class_BoolWriter
  ++ fields_of_class ConstZero class_argbBuf = [].
Proof. exact constzero_fields_never_written. Qed.
Print Assumptions C11_constzero_fields_never_written.

(** * dimension gate: one statement per length dependency *)
Theorem C11_dimension_gate_encoder_dims :
  subset ["mbW"; "mbH"] F.lossy_VP8Encoder_NewEncoder_gate = true /\
  subset ["mbW"; "mbH"] F.lossy_VP8Encoder_NewEncoderFromYUV_gate = true.
Proof. exact dimension_gate_VP8Encoder_dims. Qed.
Print Assumptions C11_dimension_gate_encoder_dims.

Theorem C11_dimension_gate_encoder_buffers :
  subset dims_sized_VP8Encoder (written F.lossy_VP8Encoder_allocateBuffers_writes) = true /\
  subset (fields_of_class Scratch class_VP8Encoder) (dims_sized_VP8Encoder ++ fixed_arrays_VP8Encoder) = true.
Proof. exact (conj dimension_gate_VP8Encoder_buffers dimension_gate_VP8Encoder_scratch). Qed.
Print Assumptions C11_dimension_gate_encoder_buffers.

Theorem C11_dimension_gate_numParts_derr_tokens :
  In "numParts" (strongly_written F.lossy_VP8Encoder_resetForReuse_writes) /\
  (In "useDerr" (strongly_written F.lossy_VP8Encoder_resetForReuse_writes) /\
   In "topDerr" (strongly_written F.lossy_VP8Encoder_resetForReuse_writes) /\
   In "topDerr" (strongly_written F.lossy_VP8Encoder_allocateBuffers_writes)) /\
  (In "tokens.Reset" F.lossy_VP8Encoder_NewEncoder_calls /\ In "tokens.Reset" F.lossy_VP8Encoder_NewEncoderFromYUV_calls /\
   In "pages" assigned_TokenBuffer /\ In "curPage" assigned_TokenBuffer).
Proof. exact (conj dimension_gate_numParts (conj dimension_gate_derr dimension_gate_tokens)). Qed.
Print Assumptions C11_dimension_gate_numParts_derr_tokens.

Theorem C11_dimension_gate_parallel_and_workers :
  (subset ["workers"; "rs"; "topY"; "topNz"] F.lossy_parallelState_getParallelState_gate = true /\
   subset ["topY"; "topU"; "topV"; "topModes"; "topNz"; "topNzDC"; "nextRow"]
          F.lossy_parallelState_encodeFrameParallel_touches = true) /\
  subset ["workers"; "topY"; "topU"; "topV"; "topModes"; "topNz"; "topNzDC"]
         F.lossy_parallelState_encodeFrameParallel_reslices = true /\
  subset ["rowR"; "tmpRGB"] F.lossy_importUVWorker_getImportUVWorker_gate = true.
Proof. exact (conj dimension_gate_parallelState (conj dimension_gate_parallelState_resliced dimension_gate_importUVWorker)). Qed.
Print Assumptions C11_dimension_gate_parallel_and_workers.

(** reuse-or-grow buffers: the regenerated list of guards
    [if cap(x.f) >= n { x.f = x.f[:n] } else { x.f = make(T, n) }] (same length expression
    in both branches) covers every pooled buffer outside the (mbW,mbH) gate *)
Theorem C11_dimension_gate_resized :
  has_pairs [("yuvT", "mbW"); ("mbInfo", "mbW + 1"); ("fInfo", "mbW"); ("mbData", "mbW"); ("slab", "slabSize")]
            F.lossy_Decoder_initFrame_resizes = true /\
  has_pairs [("argb", "pixelCount")] F.lossless_Encoder_Encode_resizes = true /\
  has_pairs [("argb", "pixelCount")] F.lossless_Encoder_EncodeToWriter_resizes = true /\
  has_pairs [("pixels", "needed"); ("transformBuf", "numAlloc")] F.lossless_Decoder_DecodeVP8L_resizes = true /\
  has_pairs [("colorCacheBuf", "size")] F.lossless_Decoder_decodeImageStream_resizes = true /\
  has_pairs [("buf", "0")] F.bitio_BoolWriter_Reset_resizes = true /\
  has_pairs [("data", "pixelCount")] F.root_argbBuf_encodeLossless_resizes = true /\
  has_pairs [("data", "pixelCount")] F.root_argbBuf_encodeLosslessToWriter_resizes = true.
Proof. exact dimension_gate_resized. Qed.
Print Assumptions C11_dimension_gate_resized.

Theorem C11_dimension_gate_lossy_Decoder :
  subset ["yuvT"; "mbInfo"; "fInfo"; "mbData"; "slab"; "intraT"; "yuvB"; "cacheY"; "cacheU"; "cacheV";
          "cacheYStride"; "cacheUVStride"]
         (strongly_written F.lossy_Decoder_initFrame_writes) = true.
Proof. exact dimension_gate_lossy_Decoder. Qed.
Print Assumptions C11_dimension_gate_lossy_Decoder.

(** * history independence.
    For every pooled type (field list, classification, acquire-path and release
    assignment lists) that passes the reset-completeness check, for every call
    body [run] that satisfies the frame condition (result depends only on Config,
    State, ConstZero fields and the observable shape of Scratch fields), never writes
    the ConstZero fields, and every gate satisfying the dimension-gate condition; the
    pool initially holds only objects whose ConstZero fields have their allocation value: for all histories [h], all last calls [a], all pool
    behaviours (which pooled objects the runtime drops, which one Get returns or
    none, whether Put keeps the object) and all initial pool contents, the last
    call returns exactly what it returns as the only call of a fresh process. *)
Theorem C11_history_independent :
  forall (Args Out Val Shape : Type) (shape : Args -> Val -> Shape)
         (fields : list string) (cls : list (string * fclass)) (assigned released : list string)
         (init : Args -> string -> Val) (nilv zerov : Val)
         (gate : Args -> (string -> Val) -> bool) (run : Args -> (string -> Val) -> Out * (string -> Val)),
    reset_complete_b fields cls assigned released = true ->
    frame_condition Args Out Val Shape shape fields cls run ->
    dimension_gate_condition Args Val Shape shape fields cls assigned init gate ->
    (forall a, czero_inv Val fields cls zerov (fresh Args Val init a)) ->
    (forall a o, czero_inv Val fields cls zerov o -> czero_inv Val fields cls zerov (snd (run a o))) ->
    forall (h : list (Args * behaviour)) (a : Args) (b b0 : behaviour) (p0 : list (string -> Val)),
      pool_inv Val fields cls zerov p0 ->
      out_of_last Out Val (run_history Args Out Val assigned released init nilv gate run p0 (h ++ [(a, b)]))
      = out_of_last Out Val (run_history Args Out Val assigned released init nilv gate run [] [(a, b0)]).
Proof. exact history_independent. Qed.
Print Assumptions C11_history_independent.

(** every call of a history, not only the last *)
Theorem C11_history_all_outputs_fresh :
  forall (Args Out Val Shape : Type) (shape : Args -> Val -> Shape)
         (fields : list string) (cls : list (string * fclass)) (assigned released : list string)
         (init : Args -> string -> Val) (nilv zerov : Val)
         (gate : Args -> (string -> Val) -> bool) (run : Args -> (string -> Val) -> Out * (string -> Val)),
    reset_complete_b fields cls assigned released = true ->
    frame_condition Args Out Val Shape shape fields cls run ->
    dimension_gate_condition Args Val Shape shape fields cls assigned init gate ->
    (forall a, czero_inv Val fields cls zerov (fresh Args Val init a)) ->
    (forall a o, czero_inv Val fields cls zerov o -> czero_inv Val fields cls zerov (snd (run a o))) ->
    forall (h : list (Args * behaviour)) (p0 : list (string -> Val)),
      pool_inv Val fields cls zerov p0 ->
      fst (run_history Args Out Val assigned released init nilv gate run p0 h)
      = map (fun c => fst (run (fst c) (fresh Args Val init (fst c)))) h.
Proof. exact history_all_outputs_fresh. Qed.
Print Assumptions C11_history_all_outputs_fresh.

(** instantiated with the regenerated lists of the real pooled types *)
Theorem C11_history_independent_all_pooled_types :
  forall (Args Out Val Shape : Type) (shape : Args -> Val -> Shape)
         (init : Args -> string -> Val) (nilv zerov : Val)
         (gate : Args -> (string -> Val) -> bool) (run : Args -> (string -> Val) -> Out * (string -> Val)),
    hist_indep Args Out Val Shape shape init nilv gate run zerov
               F.lossy_VP8Encoder_fields class_VP8Encoder assigned_VP8Encoder released_VP8Encoder /\
    hist_indep Args Out Val Shape shape init nilv gate run zerov
               F.lossy_Decoder_fields class_lossy_Decoder assigned_lossy_Decoder released_lossy_Decoder /\
    hist_indep Args Out Val Shape shape init nilv gate run zerov
               F.lossless_Encoder_fields class_lossless_Encoder assigned_lossless_Encoder released_lossless_Encoder /\
    hist_indep Args Out Val Shape shape init nilv gate run zerov
               F.lossless_Decoder_fields class_lossless_Decoder assigned_lossless_Decoder released_lossless_Decoder /\
    hist_indep Args Out Val Shape shape init nilv gate run zerov
               F.bitio_BoolWriter_fields class_BoolWriter assigned_BoolWriter [] /\
    hist_indep Args Out Val Shape shape init nilv gate run zerov
               F.root_argbBuf_fields class_argbBuf assigned_argbBuf [] /\
    hist_indep Args Out Val Shape shape init nilv gate run zerov
               F.lossy_parallelState_fields class_parallelState assigned_parallelState
               (strongly_written F.lossy_parallelState_putParallelState_writes).
Proof.
  intros. exact (conj (history_independent_VP8Encoder _ _ _ _ _ _ _ _ _ _)
                (conj (history_independent_lossy_Decoder _ _ _ _ _ _ _ _ _ _)
                (conj (history_independent_lossless_Encoder _ _ _ _ _ _ _ _ _ _)
                (conj (history_independent_lossless_Decoder _ _ _ _ _ _ _ _ _ _)
                (conj (history_independent_BoolWriter _ _ _ _ _ _ _ _ _ _)
                (conj (history_independent_argbBuf _ _ _ _ _ _ _ _ _ _)
                      (history_independent_parallelState _ _ _ _ _ _ _ _ _ _))))))).
Qed.
Print Assumptions C11_history_independent_all_pooled_types.

(** * write-before-read: part of the frame condition as a checked fact.
    The translator abstracts every function of the package, per field, into a skeleton
    of Fill / Touch events (Gen/Skel.v); the analysis [check] is a Coq function. *)

(** soundness of the analysis, for every skeleton environment, fuel and skeleton: if it
    does not answer [Bad], the first access of every admitted trace is a complete
    overwrite (or there is no access).  Traces range over all branches, loop counts,
    call depths, early returns and - for ifs that test a never-reassigned parameter
    (IfC) - all valuations of those guards, each activation of a callee having its own *)
Theorem C11_wbr_analysis_sound :
  forall (env : string -> sk) (fuel : nat) (rho : string -> bool) (s : sk),
    check env fuel rho s <> Bad -> forall t, den env rho s t -> safe t.
Proof. exact check_sound. Qed.
Print Assumptions C11_wbr_analysis_sound.

(** the listed Scratch fields are (still) decided by the analysis on the regenerated
    skeletons of today's source: a read sneaking in before the fill, a dropped or
    conditional fill, a new early access from another function removes a field from the
    computed set.  Additional decided fields (e.g. after a redundant extra reset) are fine. *)
Theorem C11_wbr_decided_fields :
  subset ["topNz"; "topNzDC"; "statTopNz"; "statTopNzDC"; "itTopY"; "itTopU"; "itTopV"; "itTopNZ"]
         (wbr_computed "lossy.VP8Encoder." class_VP8Encoder) = true /\
  subset ["cacheYOff"; "cacheUOff"; "cacheVOff"; "dcScratch"] (wbr_computed "lossy.Decoder." class_lossy_Decoder) = true /\
  subset ["topY"; "topU"; "topV"; "topModes"; "topNz"; "topNzDC"] (wbr_computed "lossy.parallelState." class_parallelState) = true.
Proof. exact wbr_decided_fields. Qed.
Print Assumptions C11_wbr_decided_fields.

(** the skeletons do not name the object: every function of the package reaches a pooled
    object of a given type through ONE expression (receiver, parameter, the local bound
    at the acquisition, or a fixed field path from it), never through an element of a
    slice of such objects - so all accesses along a call chain concern the object
    acquired at its top.  Only exception: MBIterator.FillPredContext(enc) also reads the
    back pointer it.enc, which InitIterator sets to the same encoder. *)
Theorem C11_single_instance_per_function :
  inst_ok WebpGen.Skel.inst_lossy_VP8Encoder ["MBIterator.FillPredContext"] = true /\
  inst_ok WebpGen.Skel.inst_lossy_TokenBuffer [] = true /\
  inst_ok WebpGen.Skel.inst_lossy_Decoder [] = true /\
  inst_ok WebpGen.Skel.inst_lossy_parallelState [] = true /\
  inst_ok WebpGen.Skel.inst_lossless_Encoder [] = true /\
  inst_ok WebpGen.Skel.inst_lossless_Decoder [] = true /\
  filter (fun p => String.eqb (fst p) "MBIterator.FillPredContext") WebpGen.Skel.inst_lossy_VP8Encoder
    = [("MBIterator.FillPredContext", "enc"); ("MBIterator.FillPredContext", "it.enc")].
Proof. exact single_instance_per_function. Qed.
Print Assumptions C11_single_instance_per_function.

(** for each of them, every access trace any entry point of the package admits is safe *)
Theorem C11_wbr_field_safe :
  forall prefix cls f, In f (wbr_computed prefix cls) ->
  forall r rho t, In r (se_roots (skel_of prefix f)) ->
                  den (env_of (se_env (skel_of prefix f))) rho (Call r) t -> safe t.
Proof. exact wbr_field_safe. Qed.
Print Assumptions C11_wbr_field_safe.

(** an object's life is a sequence of entry-point calls, each possibly cut short *)
Theorem C11_wbr_lifetime_safe :
  (forall ts, Forall safe ts -> safe (concat ts)) /\ (forall t1 t2, safe (t1 ++ t2) -> safe t1).
Proof. exact (conj safe_concat safe_prefix). Qed.
Print Assumptions C11_wbr_lifetime_safe.

(** any execution whose accesses to the field follow a safe trace ends in a state (of
    everything but the field) that does not depend on the field's initial content *)
Theorem C11_safe_trace_content_independent :
  forall (R V Sh : Type) (shape : V -> Sh) (next : R -> option ev)
         (fillf : R -> Sh -> R * V) (touchf : R -> V -> R * V) (n : nat) (r : R) (v v' : V),
    shape v = shape v' -> safe (mtrace R V Sh shape next fillf touchf n r v) ->
    fst (mrun R V Sh shape next fillf touchf n r v) = fst (mrun R V Sh shape next fillf touchf n r v').
Proof. exact safe_trace_content_independent. Qed.
Print Assumptions C11_safe_trace_content_independent.

(** content independence of the decided fields + the frame condition for objects that
    agree on them = the frame condition *)
Theorem C11_frame_from_decided :
  forall (Args Out Val Shape : Type) (shape : Args -> Val -> Shape) (fields : list string)
         (cls : list (string * fclass)) (run : Args -> (string -> Val) -> Out * (string -> Val)) (D : list string),
    (forall f, In f D -> In f fields /\ class_is cls Scratch f) ->
    (forall f, In f D -> indep_field Args Out Val Shape shape run f) ->
    frame_condition_given Args Out Val Shape shape fields cls run D ->
    frame_condition Args Out Val Shape shape fields cls run.
Proof. exact frame_from_decided. Qed.
Print Assumptions C11_frame_from_decided.

(** history independence with the frame hypothesis weakened accordingly *)
Theorem C11_history_independent_wbr :
  forall (Args Out Val Shape : Type) (shape : Args -> Val -> Shape)
         (init : Args -> string -> Val) (nilv zerov : Val)
         (gate : Args -> (string -> Val) -> bool) (run : Args -> (string -> Val) -> Out * (string -> Val)),
    hist_indep_wbr Args Out Val Shape shape init nilv gate run zerov
                   F.lossy_VP8Encoder_fields class_VP8Encoder assigned_VP8Encoder released_VP8Encoder wbr_VP8Encoder /\
    hist_indep_wbr Args Out Val Shape shape init nilv gate run zerov
                   F.lossy_Decoder_fields class_lossy_Decoder assigned_lossy_Decoder released_lossy_Decoder wbr_lossy_Decoder /\
    hist_indep_wbr Args Out Val Shape shape init nilv gate run zerov
                   F.lossy_parallelState_fields class_parallelState assigned_parallelState
                   (strongly_written F.lossy_parallelState_putParallelState_writes) wbr_parallelState.
Proof.
  intros. exact (conj (history_independent_wbr_VP8Encoder _ _ _ _ _ _ _ _ _ _)
                (conj (history_independent_wbr_lossy_Decoder _ _ _ _ _ _ _ _ _ _)
                      (history_independent_wbr_parallelState _ _ _ _ _ _ _ _ _ _))).
Qed.
Print Assumptions C11_history_independent_wbr.

(** * returned values are fresh: over the regenerated list of every return site of the
    functions behind the public API (and every module function contributing a returned
    value), each reference-typed operand is nil, freshly allocated, produced by an
    allocating function outside the module, or produced by a listed module function;
    none is pooled storage, a parameter, or unclassified; and every API root is listed *)
Theorem C11_returned_values_fresh :
  returned_values_fresh_b (codec_sites WebpGen.Owner.owner_sites) = true /\
  forallb (fun r => existsb (fun q => String.eqb (fst q) r) WebpGen.Owner.owner_sites) api_return_roots = true.
Proof. exact returned_values_fresh. Qed.
Print Assumptions C11_returned_values_fresh.

(** no exported function or method of the public packages (webp, animation, mux, sharpyuv)
    returns memory that aliases a package-level variable or pooled storage: library state
    cannot be reached - hence not mutated - through a value the API hands out (every such
    function is in the regenerated list; sharpyuv.GetConversionMatrix returns a copy) *)
Theorem C11_api_returns_no_global_state :
  forallb (fun p => api_origin_ok (snd p)) WebpGen.Owner.owner_sites = true /\
  forallb (fun r => existsb (fun q => String.prefix r (fst q)) WebpGen.Owner.owner_sites)
          WebpGen.Owner.api_reference_returning = true /\
  mem "sharpyuv.GetConversionMatrix" WebpGen.Owner.api_reference_returning = true.
Proof. exact api_returns_no_global_state. Qed.
Print Assumptions C11_api_returns_no_global_state.

(** * global tables: every write to a package-level variable of the module happens in an
    init function, inside (sync.Once).Do, or in a function reachable only from those;
    (new tables filled at init are fine; the sync.Pools are pinned by C11_pools_all_modelled) *)
Theorem C11_globals_written_only_at_init :
  forallb global_write_ok WebpGen.Globals.global_writes = true /\
  subset ["lossy.VP8FixedCostsI4"; "dsp.kGammaToLinearTab"; "sharpyuv.gammaToLinearTab"]
         (map fst WebpGen.Globals.global_writes) = true.
Proof. exact globals_written_only_at_init. Qed.
Print Assumptions C11_globals_written_only_at_init.

(** the hypotheses are satisfiable and each is needed: a two-field instance where the
    theorem applies, and the same instance with the reset line deleted, for which
    the check fails and a two-call history leaks the stale counter *)
Theorem C11_model_detects_missing_reset :
  reset_complete_b PoolExample.fields PoolExample.cls ["n"] [] = true /\
  reset_complete_b PoolExample.fields PoolExample.cls [] [] = false /\
  reset_complete_b PoolExample.fields PoolExample.cls ["n"; "k"] [] = false /\
  out_of_last _ _ (run_history nat nat nat [] [] PoolExample.init 0 PoolExample.gate PoolExample.run []
                               ([(5, PoolExample.hit)] ++ [(7, PoolExample.hit)]))
  <> out_of_last _ _ (run_history nat nat nat [] [] PoolExample.init 0 PoolExample.gate PoolExample.run []
                                  [(7, PoolExample.hit)]).
Proof. exact (conj PoolExample.complete (conj PoolExample.check_detects_missing_reset (conj PoolExample.check_detects_constzero_write PoolExample.stale_state_leaks))). Qed.
Print Assumptions C11_model_detects_missing_reset.
