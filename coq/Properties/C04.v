(** C04 — VP8 (lossy) decoding returns the samples RFC 6386 defines.
    Only statements, each closed by [exact <lemma>] (or a closed computation for
    the frozen-table obligations) and followed by [Print Assumptions]. *)
From Coq Require Import List ZArith Bool.
From WebpGen Require Tables Consts.
From Webp Require Import Vp8.Vp8Bool Vp8.Vp8Tables Vp8.Vp8Syntax Vp8.Vp8Kernels Vp8.Vp8KernelProofs Vp8.Vp8Upsample
  Vp8.Vp8BoolAbs Vp8.Vp8BoolEnc Vp8.Vp8SyntaxRT Vp8.Vp8TokenRT Vp8.Vp8ModeRT Vp8.Vp8Recon Vp8.Vp8Filter Vp8.Vp8Spec Vp8.Vp8FrameRT Vp8.Vp8RowOrder Vp8.Vp8GoReader Vp8.Vp8InlineCoeffs Vp8.Vp8InlineTree Vp8.Vp8FlatCache Vp8.Vp8TokenBuf.
From Webp Require Riff.PrefixBitio.
From Webp Require Import Base.Res.
Import ListNotations.
Open Scope Z_scope.

(** ** Boolean coder round trip: for every sequence of (bit, probability) pairs, the bytes
    written by the Go encoder model (BoolWriter: range/value/run/nbBits, carry propagation
    through pending 0xff bytes, PutBit, Finish padding), followed by any number of zero bytes
    (none included: the decoder reads zeros beyond its input), are decoded by the RFC 6386
    decoder to exactly the encoded bits.  No length bound, carries included. *)
Theorem C04_bool_roundtrip : forall ps z, probs_ok ps ->
  rfc_bits (map snd ps) (bd_init (bool_encode ps ++ repeat 0 z)) = map fst ps.
Proof. exact bool_roundtrip. Qed.
Print Assumptions C04_bool_roundtrip.

(** PutBitUniform is PutBit with probability 128 in every reachable encoder state. *)
Theorem C04_put_uniform_eq_put : forall b w R L k, wrel 8 w R L k -> 128 <= R <= 255 ->
  bw_put_uniform b w = bw_put b 128 w.
Proof. exact uniform_eq_put. Qed.
Print Assumptions C04_put_uniform_eq_put.

(** The decoder half on its own: any stream value inside the arithmetic encoder's final
    interval is decoded (by the exact-integer decoder, which the RFC decoder refines:
    Vp8BoolAbs.rfc_refines_abs) to the encoded bits. *)
Theorem C04_abs_roundtrip : forall ps R L k, probs_ok ps -> 128 <= R <= 255 ->
  let '(Rf, Lf, kf) := aenc ps (R, L, k) in
  k <= kf /\ 128 <= Rf <= 255 /\
  forall J X, kf <= J -> Lf * 2 ^ (J - kf) <= X < (Lf + Rf) * 2 ^ (J - kf) ->
  L * 2 ^ (J - k) <= X < (L + R) * 2 ^ (J - k) /\
  adec (map snd ps) (R, X - L * 2 ^ (J - k), J - k) = map fst ps.
Proof. exact abs_roundtrip. Qed.
Print Assumptions C04_abs_roundtrip.

(** ** Header syntax round trip (fixed part: colour space, clamping, segment header, filter
    header, partition count, quantiser header with the signed-value encoding) over
    (bit, probability) streams, and composed with the boolean coder: parsing the Go
    encoder's bytes for these symbols returns the emitted fields.  The probability-update
    and skip-probability fields are not covered (hence _partial). *)
Theorem C04_syntax_roundtrip_partial : forall abs_default upd_seg upd_lf cs ct sg lf lp q d rest,
  wf_seg_hdr abs_default upd_seg sg -> wf_lf_hdr upd_lf lf -> 0 <= lp < 4 -> wf_q_hdr q ->
  sync d (e_fixed_hdr upd_seg upd_lf cs ct sg lf lp q ++ rest) ->
  exists d', parse_fixed_hdr abs_default d = ((cs, ct, sg, lf, lp, q), d') /\ sync d' rest.
Proof. exact syntax_roundtrip_fixed. Qed.
Print Assumptions C04_syntax_roundtrip_partial.

Theorem C04_syntax_roundtrip_bytes_partial : forall abs_default upd_seg upd_lf cs ct sg lf lp q tail z,
  wf_seg_hdr abs_default upd_seg sg -> wf_lf_hdr upd_lf lf -> 0 <= lp < 4 -> wf_q_hdr q ->
  probs_ok (e_fixed_hdr upd_seg upd_lf cs ct sg lf lp q ++ tail) ->
  fst (parse_fixed_hdr abs_default
         (bd_init (bool_encode (e_fixed_hdr upd_seg upd_lf cs ct sg lf lp q ++ tail) ++ repeat 0 z)))
  = (cs, ct, sg, lf, lp, q).
Proof. exact syntax_roundtrip_fixed_bytes. Qed.
Print Assumptions C04_syntax_roundtrip_bytes_partial.

(** The whole first-partition header, probability updates (13.4) and skip probability included:
    every field the parser returns is the emitted one. *)
Theorem C04_syntax_roundtrip : forall abs_default upd_seg upd_lf refresh h d rest,
  wf_frame_hdr abs_default upd_seg upd_lf h ->
  sync d (e_part1_hdr upd_seg upd_lf refresh h ++ rest) ->
  exists d', parse_part1_hdr abs_default (fh_w h) (fh_h h) (fh_xscale h) (fh_yscale h) d = (h, d') /\ sync d' rest.
Proof. exact syntax_roundtrip. Qed.
Print Assumptions C04_syntax_roundtrip.

(** Coefficient tokens of one block (section 13): end-of-block, zero runs (no end-of-block
    check after a zero), literal values, the six categories with extra bits, sign, for every
    probability table, start position, context and level list with magnitudes up to 2114:
    the token reader returns the levels and the end-of-block position; the dequantised
    block is the one computed from them. *)
Theorem C04_tokens_roundtrip : forall tp ls fuel n ctx noeob d acc rest,
  wf_levels n noeob ls -> (length ls < fuel)%nat ->
  sync d (e_tokens tp n ctx noeob ls ++ rest) ->
  exists d', tokens fuel tp n ctx noeob d acc = (acc_of n ls acc, n + Z.of_nat (length ls), d') /\ sync d' rest.
Proof. exact tokens_rt. Qed.
Print Assumptions C04_tokens_roundtrip.

Theorem C04_decode_block_roundtrip : forall tp first ctx dqdc dqac ls d rest,
  wf_levels first false ls -> 0 <= first ->
  sync d (e_tokens tp first ctx false ls ++ rest) ->
  exists d', decode_block tp first ctx dqdc dqac d =
               (dequant_block (acc_of first ls []) dqdc dqac, first + Z.of_nat (length ls), d') /\ sync d' rest.
Proof. exact decode_block_rt. Qed.
Print Assumptions C04_decode_block_roundtrip.

(** Per-macroblock header (19.3, 11.2, 11.3): segment id, skip flag, luma mode, the 16 sub-block
    modes with their above / left contexts, chroma mode; the contexts handed to the next
    macroblocks are the last row / column of sub-block modes, or the mode a 16x16 mode stands for. *)
Theorem C04_mb_header_roundtrip : forall h above_b left_b mh d rest, wf_mb_hdr h above_b left_b mh ->
  sync d (e_mb_hdr h above_b left_b mh ++ rest) ->
  exists d', parse_mb_hdr h above_b left_b d =
               (mh, fst (bctx_after mh above_b left_b), snd (bctx_after mh above_b left_b), d') /\ sync d' rest.
Proof. exact parse_mb_hdr_rt. Qed.
Print Assumptions C04_mb_header_roundtrip.

(** Residual data of a macroblock: Y2 block (16x16 modes), 16 luma, 4 + 4 chroma blocks with the
    "has coefficients" contexts of the left and above blocks, block types 0..3, first coefficient
    1 after Y2: the parser returns the dequantised blocks of the emitted levels, the
    "any coefficient" flag and the contexts for the next macroblocks. *)
Theorem C04_residuals_roundtrip : forall probs q (is4 : bool) above left y2 ys us vs d rest,
  length (nz_y above) = 4%nat -> length (nz_y left) = 4%nat ->
  length (nz_u above) = 2%nat -> length (nz_u left) = 2%nat ->
  length (nz_v above) = 2%nat -> length (nz_v left) = 2%nat ->
  wf_levels 0 false y2 -> wf_rows (if is4 then 0 else 1) 4 ys -> wf_rows 0 2 us -> wf_rows 0 2 vs ->
  sync d (e_residuals probs is4 above left y2 ys us vs ++ rest) ->
  exists d', parse_residuals probs q is4 above left d =
    (res_of q is4 y2 ys us vs, fst (nz_after is4 above left y2 ys us vs), snd (nz_after is4 above left y2 ys us vs), d')
    /\ sync d' rest.
Proof. exact parse_residuals_rt. Qed.
Print Assumptions C04_residuals_roundtrip.

(** Whole key frame: an abstract frame (header, per-macroblock header and residual levels in raster
    order) is emitted as symbol lists (first partition; token partitions with macroblock rows
    round-robin), each list through the Go boolean encoder, laid out by assembleFrame with its size
    guards; Vp8Spec.decode_gen (the specification for rfc_quirks, the Go-flavoured model for
    go_quirks) parses the bytes back to the same syntax elements and reconstructs exactly what
    [reconstruct] computes from the syntax, before and after the loop filter.  wf_frame_syn: header
    fields in range, modes valid, levels within +-2114 with proper block ends, context shapes, all
    probabilities bytes. *)
Theorem C04_vp8_emit_decode : forall qk s bs, wf_frame_syn qk s -> emit_key_frame qk s = Ok bs ->
  exists r, decode_gen qk bs = Ok r /\
    dc_w r = fh_w (fs_hdr s) /\ dc_h r = fh_h (fs_hdr s) /\ dc_hdr r = fs_hdr s /\
    dc_unfiltered r = fst (reconstruct qk s) /\ dc_filtered r = snd (reconstruct qk s).
Proof. exact vp8_emit_decode. Qed.
Print Assumptions C04_vp8_emit_decode.

(** The emitted frame never makes the decoder read a bool from beyond the end of a partition
    (BoolWriter.Finish pads at least 8 bits beyond the last symbol's interval): dc_past_end is false,
    so "rejected because it needs bits beyond a partition" never applies to emitter output. *)
Theorem C04_emit_no_past_end : forall qk s bs, wf_frame_syn qk s -> emit_key_frame qk s = Ok bs ->
  exists r, decode_gen qk bs = Ok r /\ dc_past_end r = false.
Proof. exact emit_no_past_end. Qed.
Print Assumptions C04_emit_no_past_end.

(** Filtering row by row right after each macroblock row is reconstructed (from the unfiltered top
    samples kept aside), as parseFrame does, = filtering after the whole frame is reconstructed. *)
Theorem C04_row_filter_order_eq : forall qk h simple rows cols above,
  go_order qk h simple cols above rows =
  filter_rows simple above (fst (fst (rows_syn qk h cols rows))).
Proof. exact row_filter_order_eq. Qed.
Print Assumptions C04_row_filter_order_eq.

(** The Go bit reader as the inlined coefficient reader uses it (64-bit value register, Range = range-1,
    bulk loads of 7 bytes / single bytes near the end, fastBit with the Log2Range / NewRange tables,
    fastSigned): each read refines the exact-integer decoder that the RFC 6386 decoder refines too. *)
Theorem C04_go_reader_bit_refines : forall g R D j p, grel g R D j -> 128 <= R <= 255 -> 0 <= p <= 255 -> 16 <= j ->
  let '(b, (R2, D2, j2)) := aget p (R, D, j) in
  exists g', gr_bit p g = (b, g') /\ grel g' R2 D2 j2 /\ 128 <= R2 <= 254 /\ j - 7 <= j2.
Proof. exact gr_bit_refines. Qed.
Print Assumptions C04_go_reader_bit_refines.

(** getCoeffsInline as the code runs it (hoisted reader state, "if brB < 0 { brLoad }" before every
    inlined read, unrolled value tree, kCat3456 loop with its terminator, prefetched bands[n+1]) =
    the specification's token reader on the RFC decoder, for every probability table (bytes), block
    type, start position, context and EVERY pair of reader states at the same position of the same
    data ([bothp]: the Go reader and the RFC decoder both refine the exact-integer decoder over the
    data followed by zeros) - also within the last bytes of a partition, where the Go reader loads
    byte by byte and then shifts in zeros: if the Go reader has not raised its end-of-input flag when
    the block is done (otherwise decodeMB rejects the frame with errPrematureEOF), the specification
    returns the same dequantised block and end-of-block position and the readers are again at the
    same position.  No look-ahead condition. *)
Theorem C04_inline_coeffs_eq : forall tp first ctx dqdc dqac g d, tp_ok tp -> 0 <= first < 16 ->
  bothp true g d ->
  gr_eof (snd (go_get_coeffs tp first ctx dqdc dqac g)) = false ->
  exists d', Vp8Syntax.decode_block tp first ctx dqdc dqac d =
             (fst (fst (go_get_coeffs tp first ctx dqdc dqac g)),
              snd (fst (go_get_coeffs tp first ctx dqdc dqac g)), d') /\
             bothp true (snd (go_get_coeffs tp first ctx dqdc dqac g)) d'.
Proof. exact Vp8InlineTree.inline_coeffs_eq. Qed.
Print Assumptions C04_inline_coeffs_eq.

(** the relation holds between the freshly created readers of a partition of at least two bytes
    whose first byte is below 255 (every encoder output: the coded value is below the initial
    range), and once raised the Go reader's flag stays raised until decodeMB tests it *)
Theorem C04_inline_readers_start : forall a b rest, is_byte a -> is_byte b -> Forall is_byte rest -> a < 255 ->
  bothp true (PrefixBitio.gr_new (a :: b :: rest)) (bd_init (a :: b :: rest)).
Proof. exact bothp_new. Qed.
Print Assumptions C04_inline_readers_start.

Theorem C04_inline_eof_sticky : forall tp first ctx dqdc dqac g,
  gr_eof g = true -> gr_eof (snd (go_get_coeffs tp first ctx dqdc dqac g)) = true.
Proof. exact go_get_coeffs_eof_mono. Qed.
Print Assumptions C04_inline_eof_sticky.

(** ** Kernel refinements: the Go decoder's short-cuts against the full definitions *)

(** TransformOne (the Go full inverse DCT) is the RFC 14.3 transform, for all inputs. *)
Theorem C04_transform_one_eq_idct : forall c, go_transform_one c = idct c.
Proof. exact go_transform_one_eq_idct. Qed.
Print Assumptions C04_transform_one_eq_idct.

(** DC-only short-cut = full inverse DCT when only coefficient 0 is non-zero. *)
Theorem C04_transform_dc_eq : forall dc,
  go_transform_dc (dc :: repeat 0 15) = idct (dc :: repeat 0 15).
Proof. exact transform_dc_eq. Qed.
Print Assumptions C04_transform_dc_eq.

(** TransformAC3 = full inverse DCT when only coefficients 0, 1 and 4 are non-zero. *)
Theorem C04_transform_ac3_eq : forall c0 c1 c4,
  let c := [c0; c1; 0; 0; c4; 0; 0; 0; 0; 0; 0; 0; 0; 0; 0; 0] in
  go_transform_ac3 c = idct c.
Proof. exact transform_ac3_eq. Qed.
Print Assumptions C04_transform_ac3_eq.

(** The Go inverse WHT is the RFC transform; its DC-only short-cut equals it when only
    coefficient 0 is non-zero (16-bit storage of the outputs included). *)
Theorem C04_wht_eq : forall c, go_wht c = iwht c.
Proof. exact go_wht_eq_iwht. Qed.
Print Assumptions C04_wht_eq.

Theorem C04_wht_dc_only_eq : forall dc,
  go_wht_dc_only (dc :: repeat 0 15) = iwht (dc :: repeat 0 15).
Proof. exact wht_dc_only_eq. Qed.
Print Assumptions C04_wht_dc_only_eq.

(** The 2-bit per-block code chosen from the end-of-block position never selects a
    short-cut that drops a non-zero coefficient. *)
Theorem C04_nz_code_sound : forall c nz, length c = 16%nat -> 0 <= nz <= 16 ->
  (forall n, nz <= n < 16 -> nthZ c (nthZ zigzag n 0) 0 = 0) ->
  go_do_transform (go_nz_code nz (negb (g c 0 =? 0))) c = idct c.
Proof. exact nz_code_sound. Qed.
Print Assumptions C04_nz_code_sound.

(** Clip tables of internal/dsp/cliptables.go = clamp, over their complete index range. *)
Theorem C04_clip_tables_eq_clamp :
  (forall v, -893 <= v <= 892 -> tab_get go_sclip1_tab 893 v = Some (clampz (-128) 127 v)) /\
  (forall v, -112 <= v <= 112 -> tab_get go_sclip2_tab 112 v = Some (clampz (-16) 15 v)) /\
  (forall v, -255 <= v <= 511 -> tab_get go_clip1_tab 255 v = Some (clampz 0 255 v)) /\
  (forall v, -255 <= v <= 255 -> tab_get go_abs0_tab 255 v = Some (Z.abs v)).
Proof. exact clip_tables_eq_clamp. Qed.
Print Assumptions C04_clip_tables_eq_clamp.

(** GetBit, the LUT path (GetBitAlt / fastBit, with both copies of the two tables as
    they are in the source now) and GetSigned / fastSigned compute the RFC 7.3 split,
    new range and shift: complete sweep over range x probability x decision. *)
Theorem C04_bool_variants_agree : forall R p b, 128 <= R <= 255 -> 0 <= p <= 255 ->
  go_getbit_step R p b = rfc_step R p b /\
  go_lut_step WebpGen.Tables.lossy_kVP8Log2Range WebpGen.Tables.lossy_kVP8NewRange R p b = rfc_step R p b /\
  go_lut_step WebpGen.Tables.bitio_kVP8Log2Range WebpGen.Tables.bitio_kVP8NewRange R p b = rfc_step R p b /\
  (p = 128 -> R <> 255 -> go_signed_step R b = rfc_step R p b) /\
  snd (fst (rfc_step R p b)) <> 255.
Proof. exact bool_variants_agree. Qed.
Print Assumptions C04_bool_variants_agree.

(** ParseQuant's six factors = 14.1 (y2dc*2, y2ac*155/100 min 8, uvdc max 132), for every
    quantiser index (in or out of range) and every delta. *)
Theorem C04_dequant_matrix_eq : forall qh q, go_dq qh q = dq_of qh q.
Proof. exact dequant_matrix_eq. Qed.
Print Assumptions C04_dequant_matrix_eq.

(** precomputeFilterStrengths = 9.6 / 15.2 (level from segment and deltas, sharpness-dependent
    interior limit, key-frame hev threshold, sub-block edge limit), for every header. *)
Theorem C04_filter_strength_table_eq : forall h seg is4,
  go_fstrength h seg is4 =
  let p := lf_mb_params false h seg is4 in
  if lp_level p =? 0 then (0, 0, 0) else (subedge_limit p, lp_interior p, lp_hev p).
Proof. exact filter_strength_table_eq. Qed.
Print Assumptions C04_filter_strength_table_eq.

(** ... where the level is clamped once; clamping also after the segment adjustment (the
    RFC reference decoder's reading) gives the same level whenever that intermediate
    value is already within 0..63. *)
Theorem C04_filter_level_mid_clamp_agree : forall h seg is4,
  0 <= lf_base_level h seg <= 63 ->
  lf_mb_level true h seg is4 = lf_mb_level false h seg is4.
Proof. exact filter_level_mid_clamp_agree. Qed.
Print Assumptions C04_filter_level_mid_clamp_agree.

(** Loop-filter arithmetic: simple filter, macroblock-edge filter, sub-block-edge filter
    in the Go (unsigned, clip-table) form = RFC 15.2-15.4 (signed form), all samples, all limits. *)
Theorem C04_simple_filter_eq : forall E l, bytes8 l -> go_simple_seg E l = lf_simple E l.
Proof. exact simple_filter_eq. Qed.
Print Assumptions C04_simple_filter_eq.

Theorem C04_mbedge_filter_eq : forall E I T l, bytes8 l -> go_loop26_seg E I T l = lf_mbedge T I E l.
Proof. exact mbedge_filter_eq. Qed.
Print Assumptions C04_mbedge_filter_eq.

Theorem C04_subblock_filter_eq : forall E I T l, bytes8 l -> go_loop24_seg E I T l = lf_subblock T I E l.
Proof. exact subblock_filter_eq. Qed.
Print Assumptions C04_subblock_filter_eq.

(** ** Fancy upsampler and YUV -> RGB: the packed (U and V in one uint32) diamond kernel and
    edge formula give, in each lane, the 9-3-3-1 resp. 3-1 taps; the table clip is the clamp. *)
Theorem C04_upsample_diamond_eq : forall tlu tlv tu tv lu lv cu cv,
  byte tlu -> byte tlv -> byte tu -> byte tv -> byte lu -> byte lv -> byte cu -> byte cv ->
  let '(a, b, c, d) := go_diamond (pack tlu tlv) (pack tu tv) (pack lu lv) (pack cu cv) in
  lo8 a = tap9331 tlu tu lu cu /\ hi8 a = tap9331 tlv tv lv cv /\
  lo8 b = tap9331 tu tlu cu lu /\ hi8 b = tap9331 tv tlv cv lv /\
  lo8 c = tap9331 lu tlu cu tu /\ hi8 c = tap9331 lv tlv cv tv /\
  lo8 d = tap9331 cu tu lu tlu /\ hi8 d = tap9331 cv tv lv tlv.
Proof. exact go_diamond_eq. Qed.
Print Assumptions C04_upsample_diamond_eq.

Theorem C04_upsample_edge_eq : forall au av bu bv, byte au -> byte av -> byte bu -> byte bv ->
  let r := go_edge (pack au av) (pack bu bv) in
  lo8 r = tap31 au bu /\ hi8 r = tap31 av bv.
Proof. exact go_edge_eq. Qed.
Print Assumptions C04_upsample_edge_eq.

Theorem C04_yuv_clip_eq : forall v, go_yuv_clip v = yuv_clip8 v.
Proof. exact go_yuv_clip_eq. Qed.
Print Assumptions C04_yuv_clip_eq.

(** ** Frozen specification values: the tables regenerated from the Go source are the
    ones RFC 6386 prints (a mutated table in /repo breaks one of these). *)
Theorem C04_tables_match_rfc :
  WebpGen.Tables.lossy_KZigzag = rfc_zigzag /\ is_perm16 rfc_zigzag = true /\
  WebpGen.Tables.lossy_KBands = rfc_bands ++ [0] /\
  map (fun i => nthZ rfc_zigzag (nthZ unzig i 0) 0) (zrange 0 16) = zrange 0 16 /\
  WebpGen.Tables.lossy_KDcTable = rfc_DcTable /\ WebpGen.Tables.lossy_KAcTable = rfc_AcTable /\
  sorted_le rfc_DcTable = true /\ sorted_le rfc_AcTable = true /\
  (nthZ rfc_DcTable 0 0, nthZ rfc_DcTable 127 0, nthZ rfc_AcTable 0 0, nthZ rfc_AcTable 127 0) = (4, 157, 4, 284) /\
  nthZ rfc_DcTable 117 0 = 132 /\
  WebpGen.Tables.lossy_KCat3 = pcat3 ++ [0] /\ WebpGen.Tables.lossy_KCat4 = pcat4 ++ [0] /\
  WebpGen.Tables.lossy_KCat5 = pcat5 ++ [0] /\ WebpGen.Tables.lossy_KCat6 = pcat6 ++ [0] /\
  WebpGen.Tables.lossy_KYModesIntra4 = flat_tree bmode_tree 9.
Proof. repeat split; reflexivity. Qed.
Print Assumptions C04_tables_match_rfc.

(** The specification decoder's tables are the literals frozen in Vp8Tables.v (RFC 6386 values; it
    does not read the tables regenerated from the Go source).  One obligation per table: the table
    regenerated from /repo equals the frozen one - a mutated table breaks its obligation here, and
    the Go decoder then disagrees with the specification decoder on streams that reach the entry. *)
Theorem C04_table_zigzag : WebpGen.Tables.lossy_KZigzag = Vp8Tables.zigzag.
Proof. reflexivity. Qed.
Print Assumptions C04_table_zigzag.
Theorem C04_table_bands : WebpGen.Tables.lossy_KBands = Vp8Tables.bands.
Proof. reflexivity. Qed.
Print Assumptions C04_table_bands.
Theorem C04_table_dc : WebpGen.Tables.lossy_KDcTable = Vp8Tables.dc_table.
Proof. reflexivity. Qed.
Print Assumptions C04_table_dc.
Theorem C04_table_ac : WebpGen.Tables.lossy_KAcTable = Vp8Tables.ac_table.
Proof. reflexivity. Qed.
Print Assumptions C04_table_ac.
Theorem C04_table_coeff_probs0 : WebpGen.Tables.lossy_CoeffsProba0 = Vp8Tables.coeff_probs0.
Proof. reflexivity. Qed.
Print Assumptions C04_table_coeff_probs0.
Theorem C04_table_coeff_update_probs : WebpGen.Tables.lossy_CoeffsUpdateProba = Vp8Tables.coeff_update_probs.
Proof. reflexivity. Qed.
Print Assumptions C04_table_coeff_update_probs.
Theorem C04_table_kf_bmode_probs : WebpGen.Tables.lossy_KBModesProba = Vp8Tables.kf_bmode_probs.
Proof. reflexivity. Qed.
Print Assumptions C04_table_kf_bmode_probs.
Theorem C04_table_cat_extra_bits :
  WebpGen.Tables.lossy_KCat3 = pcat3 ++ [0] /\ WebpGen.Tables.lossy_KCat4 = pcat4 ++ [0] /\
  WebpGen.Tables.lossy_KCat5 = pcat5 ++ [0] /\ WebpGen.Tables.lossy_KCat6 = pcat6 ++ [0].
Proof. repeat split; reflexivity. Qed.
Print Assumptions C04_table_cat_extra_bits.
Theorem C04_table_bmode_tree : WebpGen.Tables.lossy_KYModesIntra4 = flat_tree bmode_tree 9.
Proof. reflexivity. Qed.
Print Assumptions C04_table_bmode_tree.

(** shape of the frozen probability tables (4 x 8 x 3 x 11; 10 x 10 x 9) and their checksums *)
Theorem C04_probability_tables_frozen :
  (length (flat4 coeff_probs0), wsum (flat4 coeff_probs0), sumz (flat4 coeff_probs0)) = (1056%nat, 112461, 174918) /\
  (length (flat4 coeff_update_probs), wsum (flat4 coeff_update_probs), sumz (flat4 coeff_update_probs)) = (1056%nat, 2904, 268469) /\
  (length (flat3 kf_bmode_probs), wsum (flat3 kf_bmode_probs), sumz (flat3 kf_bmode_probs)) = (900%nat, 36850, 77557) /\
  forallb (fun t => (Z.of_nat (length t) =? 8) &&
     forallb (fun b => (Z.of_nat (length b) =? 3) && forallb (fun c => Z.of_nat (length c) =? 11) b) t) coeff_probs0 = true.
Proof. repeat split; vm_compute; reflexivity. Qed.
Print Assumptions C04_probability_tables_frozen.

(** Mode numbering used by the models = the constants of the Go source. *)
Theorem C04_mode_constants :
  (WebpGen.Consts.lossy_DCPred, WebpGen.Consts.lossy_TMPred, WebpGen.Consts.lossy_VPred, WebpGen.Consts.lossy_HPred)
    = (DC_PRED, TM_PRED, V_PRED, H_PRED) /\
  [WebpGen.Consts.lossy_BDCPred; WebpGen.Consts.lossy_BTMPred; WebpGen.Consts.lossy_BVEPred;
   WebpGen.Consts.lossy_BHEPred; WebpGen.Consts.lossy_BRDPred; WebpGen.Consts.lossy_BVRPred;
   WebpGen.Consts.lossy_BLDPred; WebpGen.Consts.lossy_BVLPred; WebpGen.Consts.lossy_BHDPred;
   WebpGen.Consts.lossy_BHUPred] = [B_DC; B_TM; B_VE; B_HE; B_RD; B_VR; B_LD; B_VL; B_HD; B_HU] /\
  (WebpGen.Consts.dsp_c1, WebpGen.Consts.dsp_c2) = (cospi8sqrt2minus1, sinpi8sqrt2) /\
  [WebpGen.Consts.dsp_kYScale; WebpGen.Consts.dsp_kRCr; WebpGen.Consts.dsp_kGCb; WebpGen.Consts.dsp_kGCr;
   WebpGen.Consts.dsp_kBCb; WebpGen.Consts.dsp_kRBias; WebpGen.Consts.dsp_kGBias; WebpGen.Consts.dsp_kBBias;
   WebpGen.Consts.dsp_yuvMask; WebpGen.Consts.dsp_yuvFix2] = [19077; 26149; 6419; 13320; 33050; 14234; 8708; 17685; 16383; 6].
Proof. repeat split; reflexivity. Qed.
Print Assumptions C04_mode_constants.

(** ** Flat buffers.  reconstructRow's transfer loops into the output cache
    ("yOut := dec.cacheY[mbX*16 + mbY*16*yStride:]; for j { copy(yOut[j*yStride:...], yDst[j*bps:...]) }",
    8 for U and V; yStride = 16*mbW) as nested counted loops over a flat list with Go's copy:
    after the loops over all macroblocks the flat buffer is the concatenation of the rows of the
    plane the macroblock-grid model assembles (Vp8Filter.plane_rows), i.e. cell y*stride + x holds
    sample (x mod n, y mod n) of macroblock (x / n, y / n). *)
Theorem C04_cache_store_flat_eq : forall n W H sel rows c,
  0 < n -> 0 < W -> 0 < H -> grid_ok n W H sel rows ->
  length c = Z.to_nat (n * W * (n * H)) ->
  store_frame n W H sel rows c = concat (plane_rows sel (Z.to_nat n) rows).
Proof. exact store_frame_eq. Qed.
Print Assumptions C04_cache_store_flat_eq.

(** The work buffer dec.yuvB (stride BPS = 32, 26 rows; luma block at cell (8, 1) with 4 above-right
    samples, U at (8, 18), V at (24, 18): generated constants) and the invariant of reconstructRow's
    macroblock loop, as loops over the flat buffer: start of a row (129 column, corner, 127 row on
    the first row) gives the entry state of macroblock 0; from an entry state, the preparation steps
    (rotation of the 4 left columns for j = -1..n-1, top samples, above-right samples of the next
    macroblock or the repeated last top sample on the right-most one, their copies beside rows 3, 7,
    11) leave in the cells the predictors read exactly the grid model's border values
    (Vp8Recon.mk_edges, cell by cell in C04_mk_edges_y_cells); storing the reconstructed block and
    stashing its last row gives the entry state of the next macroblock. *)
Theorem C04_yuvb_layout :
  WebpGen.Consts.lossy_BPS = 32 /\ WebpGen.Consts.lossy_YUVSize = 32 * 26 /\
  WebpGen.Consts.lossy_YOff = 1 * 32 + 8 /\ WebpGen.Consts.lossy_UOff = 18 * 32 + 8 /\
  WebpGen.Consts.lossy_VOff = 18 * 32 + 24 /\
  geo_ok 32 26 16 4 8 1 /\ geo_ok 32 26 8 0 8 18 /\ geo_ok 32 26 8 0 24 18.
Proof. exact yuvb_layout. Qed.
Print Assumptions C04_yuvb_layout.

Theorem C04_workbuf_row_start : forall S Ht n tr X0 Y0 mby mbW tops c0 abv_row prev,
  geo_ok S Ht n tr X0 Y0 -> 0 <= mby -> length c0 = Z.to_nat (S * Ht) ->
  (0 < mby -> forall k, 0 <= k < mbW ->
     Z.of_nat (length (nth (Z.to_nat k) tops [])) = n /\
     forall i, 0 <= i < n -> fget (nth (Z.to_nat k) tops []) i = abv_row k i) ->
  entry_state S Ht n tr X0 Y0 0 mby mbW tops (init_corner S n tr X0 Y0 mby (init_left S n X0 Y0 c0)) abv_row prev.
Proof. exact workbuf_row_start. Qed.
Print Assumptions C04_workbuf_row_start.

Theorem C04_workbuf_prep_edges : forall S Ht n tr X0 Y0 mbx mby mbW is4 tops c abv_row prev,
  geo_ok S Ht n tr X0 Y0 -> 0 <= mbx < mbW -> 0 <= mby ->
  entry_state S Ht n tr X0 Y0 mbx mby mbW tops c abv_row prev ->
  let P := prep S n tr X0 Y0 mbx mby mbW is4 tops c in
  length P = length c /\ context_cells S n tr X0 Y0 mbx mby mbW is4 P abv_row prev.
Proof. exact workbuf_prep_edges. Qed.
Print Assumptions C04_workbuf_prep_edges.

Theorem C04_workbuf_next_entry : forall S Ht n tr X0 Y0 mbx mby mbW is4 tops tops' c abv_row prev blk,
  geo_ok S Ht n tr X0 Y0 -> 0 <= mbx < mbW -> 0 <= mby ->
  entry_state S Ht n tr X0 Y0 mbx mby mbW tops c abv_row prev ->
  blk_ok n blk ->
  (forall k, mbx < k -> nth (Z.to_nat k) tops' [] = nth (Z.to_nat k) tops []) ->
  entry_state S Ht n tr X0 Y0 (mbx + 1) mby mbW tops'
    (store_block S n (Y0 * S + X0) blk (prep S n tr X0 Y0 mbx mby mbW is4 tops c))
    abv_row (fun i j => fget (nth (Z.to_nat j) blk []) i).
Proof. exact workbuf_next_entry. Qed.
Print Assumptions C04_workbuf_next_entry.

Theorem C04_mk_edges_y_cells : forall above left al ar : option mbpix,
  (forall p, In (Some p) [above; left; al; ar] -> blk_ok 16 (px_y p)) ->
  let e := mk_edges above left al ar in
  (forall i, 0 <= i < 16 ->
     fget (e_above_y e) i = match above with Some p => fget (nth 15 (px_y p) []) i | None => 127 end) /\
  (forall j, 0 <= j < 16 ->
     fget (e_left_y e) j = match left with Some p => fget (nth (Z.to_nat j) (px_y p) []) 15 | None => 129 end) /\
  e_corner_y e = match above with
                 | None => 127
                 | Some _ => match al with Some p => fget (nth 15 (px_y p) []) 15 | None => 129 end
                 end /\
  (forall i, 0 <= i < 4 ->
     fget (e_ar e) i = match above with
                       | None => 127
                       | Some p => match ar with
                                   | Some q => fget (nth 15 (px_y q) []) i
                                   | None => fget (nth 15 (px_y p) []) 15
                                   end
                       end).
Proof. exact mk_edges_y_cells. Qed.
Print Assumptions C04_mk_edges_y_cells.

(** doFilter's horizontal passes over the output cache as loops over the flat buffer
    ("for j := 0; j < n; j++ { off := base + j*bps; ... p[off-4] .. p[off+3] ... }"): at the macroblock
    edge (base = mbY*n*stride + mbX*n, i.e. cell (x0, y0)) the left and the current block of the
    buffer become the grid model's edge_h of the two blocks; the inner passes (base + 4k: windows
    starting 0, 4, 8 samples into the block; chroma one window) turn the current block into
    inner_h.  [f]: any 8-sample edge function (length-preserving). *)
Theorem C04_filter_hpass_edge_h : forall S Ht (f : list Z -> list Z),
  (forall l, length l = 8%nat -> length (f l) = 8%nat) ->
  forall x0 y0 (n : nat) c,
  (4 <= n)%nat -> Z.of_nat n <= x0 -> x0 + Z.of_nat n <= S -> 0 <= y0 -> y0 + Z.of_nat n <= Ht ->
  length c = Z.to_nat (S * Ht) ->
  let c' := hpass S f x0 y0 (Z.of_nat n) c in
  (block_at S c' (x0 - Z.of_nat n) y0 n, block_at S c' x0 y0 n) =
  edge_h n f (block_at S c (x0 - Z.of_nat n) y0 n) (block_at S c x0 y0 n).
Proof. exact hpass_edge_h. Qed.
Print Assumptions C04_filter_hpass_edge_h.

Theorem C04_filter_hpasses_inner_h : forall S Ht (f : list Z -> list Z),
  (forall l, length l = 8%nat -> length (f l) = 8%nat) ->
  forall x0 y0 (n : nat), 0 <= x0 -> x0 + Z.of_nat n <= S -> 0 <= y0 -> y0 + Z.of_nat n <= Ht ->
  forall offs c, Forall (fun o => (o + 8 <= n)%nat) offs -> length c = Z.to_nat (S * Ht) ->
  block_at S (hpasses S f x0 y0 n offs c) x0 y0 n = inner_h f offs (block_at S c x0 y0 n).
Proof. exact hpasses_inner_h. Qed.
Print Assumptions C04_filter_hpasses_inner_h.

(** doFilter's vertical passes ("for i := 0; i < width; i++ { off := base + i; ... p[off-4*bps] ..
    p[off+3*bps] ... }", the 8 samples of a column read, then written back): at the macroblock edge
    the block above and the current block of the buffer become the grid model's edge_v (stated there
    through transposition); the inner passes (base + 4k*bps) turn the current block into inner_v. *)
Theorem C04_filter_vpass_edge_v : forall S Ht (f : list Z -> list Z),
  (forall l, length l = 8%nat -> length (f l) = 8%nat) ->
  forall x0 ye (n : nat) c,
  (4 <= n)%nat -> 0 <= x0 -> x0 + Z.of_nat n <= S -> Z.of_nat n <= ye -> ye + Z.of_nat n <= Ht ->
  length c = Z.to_nat (S * Ht) ->
  let c' := vpass S f x0 ye (Z.of_nat n) c in
  (block_at S c' x0 (ye - Z.of_nat n) n, block_at S c' x0 ye n) =
  edge_v n f (block_at S c x0 (ye - Z.of_nat n) n) (block_at S c x0 ye n).
Proof. exact vpass_edge_v. Qed.
Print Assumptions C04_filter_vpass_edge_v.

Theorem C04_filter_vpasses_inner_v : forall S Ht (f : list Z -> list Z),
  (forall l, length l = 8%nat -> length (f l) = 8%nat) ->
  forall x0 y0 (n : nat), (0 < n)%nat -> 0 <= x0 -> x0 + Z.of_nat n <= S -> 0 <= y0 -> y0 + Z.of_nat n <= Ht ->
  forall offs c, Forall (fun o => (o + 8 <= n)%nat) offs -> length c = Z.to_nat (S * Ht) ->
  block_at S (vpasses S f x0 y0 n offs c) x0 y0 n = inner_v f offs (block_at S c x0 y0 n).
Proof. exact vpasses_inner_v. Qed.
Print Assumptions C04_filter_vpasses_inner_v.

(** ** The encoder's token buffer (encode_token.go): record + replay = direct emission.  Tokens are
    recorded into pages of P entries (RecordToken adds a page when the current one is full), each
    non-skipped macroblock sets its start mark (MarkMBStart; skipped ones keep -1), and
    EmitTokensPartitioned fills the missing marks backwards from the token count, then walks each
    selected macroblock's range in page-aligned chunks (tok / P, tok % P, min(P, end - page*P)).
    For every page size, every writer and every recording (macroblocks in rows of mbW, skipped ones
    anywhere, empty ones included), replaying partition i - the macroblocks with
    (mbIdx / mbW) & (2^lg - 1) = i - puts exactly the frame model's symbols of partition i
    (Vp8FrameRT.part_syms: rows r with r mod 2^lg = i) in order; EmitTokens puts all of them. *)
Theorem C04_token_buffer_partition_eq : forall W (put : W -> bool * Z -> W) (P : nat), (0 < P)%nat ->
  forall (w : nat) (lg i : Z) (rows : list (list (option (list (bool * Z))))) (bw : W),
  (0 < w)%nat -> 0 <= lg -> Forall (fun r => length r = w) rows ->
  emit_part (bool * Z) W put P (length (concat rows)) (part_sel (Z.of_nat w) (2 ^ lg) i)
            (session (bool * Z) P (concat rows)) bw =
  puts (bool * Z) W put (part_syms (2 ^ lg) i 0 (map (fun r => concat (map (mb_toks (bool * Z)) r)) rows)) bw.
Proof. exact token_buffer_partition_eq. Qed.
Print Assumptions C04_token_buffer_partition_eq.

Theorem C04_token_buffer_emit_all : forall tok W (put : W -> tok -> W) (P : nat), (0 < P)%nat ->
  forall (os : list (option (list tok))) (w : W),
  emit_all tok W put (session tok P os) w = puts tok W put (concat (map (mb_toks tok) os)) w.
Proof. exact emit_all_session. Qed.
Print Assumptions C04_token_buffer_emit_all.
