(** C05 — no input bytes can crash, hang or exhaust any decoding entry point.
    Theorems over the demuxer model (mux/demux.go + mux/chunk.go); the codec
    loops are covered by the malformed-stream run of the harness (a test). *)
From Coq Require Import List ZArith Lia.
From Webp Require Import Base.Res Base.Bytes Riff.DemuxModel Riff.DemuxTotal.
From WebpGen Require Consts.
Import ListNotations.
Open Scope Z_scope.

(** With the patch work/patches/c05-demux-riff-size.diff: for every byte string
    NewDemuxer neither panics nor exhausts its fuel (each loop iteration consumes
    >= 8 bytes), and a successful result holds only sub-slices of the input
    (frame bitstreams, alpha payloads, metadata, chunk payloads), between 1 and
    maxFrames frames with non-negative offsets, and metadata <= maxMetadataSize. *)
Theorem C05_demux_total_and_well_formed : forall bs, bytes_ok bs ->
  match parse true bs with
  | Ok d => dwf bs d /\ 1 <= len (d_frames d)
  | Err e => e <> E_fuel
  | Panic => False
  end.
Proof. exact parse_spec. Qed.
Print Assumptions C05_demux_total_and_well_formed.

Theorem C05_demux_total : forall bs, bytes_ok bs -> parse true bs <> Panic.
Proof. exact demux_total. Qed.
Print Assumptions C05_demux_total.

Theorem C05_demux_fuel_sufficient : forall bs, bytes_ok bs -> parse true bs <> Err E_fuel.
Proof. exact demux_fuel_sufficient. Qed.
Print Assumptions C05_demux_fuel_sufficient.

(** The pinned code (no patch): [demux_total] is false. *)
Theorem C05_demux_panics_refuted :
  exists bs, bytes_ok bs /\ pinned_parse bs = Panic.
Proof. exists demux_witness. exact demux_panics_refuted. Qed.
Print Assumptions C05_demux_panics_refuted.

(** ... and the patch changes nothing else: wherever the pinned code does not
    panic it returns what the patched code returns. *)
Theorem C05_patch_is_conservative : forall bs, pinned_parse bs <> Panic -> pinned_parse bs = parse true bs.
Proof. exact parse_pinned_agrees. Qed.
Print Assumptions C05_patch_is_conservative.

Theorem C05_frame_total : forall d i, frame d i <> Panic.
Proof. exact frame_total. Qed.
Print Assumptions C05_frame_total.

Theorem C05_frame_ok_iff_in_range : forall d i, (exists fi, frame d i = Ok fi) <-> 0 <= i < len (d_frames d).
Proof. exact frame_ok_iff. Qed.
Print Assumptions C05_frame_ok_iff_in_range.

Theorem C05_get_chunk_total : forall d id, get_chunk d id <> Panic.
Proof. exact get_chunk_total. Qed.
Print Assumptions C05_get_chunk_total.

Theorem C05_get_chunk_in_bounds : forall top d id x, dwf top d -> get_chunk d id = Ok x -> infix x top.
Proof. exact get_chunk_in_bounds. Qed.
Print Assumptions C05_get_chunk_in_bounds.

(** The limits the model uses are the constants of the current source. *)
Theorem C05_limits_match_source :
  WebpGen.Consts.mux_maxFrames = maxFrames /\ WebpGen.Consts.mux_maxMetadataSize = maxMetadataSize /\
  WebpGen.Consts.container_MaxChunkPayload = MaxChunkPayload /\ WebpGen.Consts.container_MaxImageArea = MaxImageArea /\
  WebpGen.Consts.container_ChunkHeaderSize = ChunkHeaderSize /\ WebpGen.Consts.container_RIFFHeaderSize = RIFFHeaderSize /\
  WebpGen.Consts.container_ANMFChunkSize = ANMFChunkSize /\ WebpGen.Consts.container_ANIMChunkSize = ANIMChunkSize /\
  WebpGen.Consts.container_VP8XChunkSize = VP8XChunkSize /\
  WebpGen.Consts.mux_FourCCRIFF = FCC_RIFF /\ WebpGen.Consts.mux_FourCCWEBP = FCC_WEBP /\
  WebpGen.Consts.mux_FourCCVP8 = FCC_VP8 /\ WebpGen.Consts.mux_FourCCVP8L = FCC_VP8L /\
  WebpGen.Consts.mux_FourCCVP8X = FCC_VP8X /\ WebpGen.Consts.mux_FourCCALPH = FCC_ALPH /\
  WebpGen.Consts.mux_FourCCANIM = FCC_ANIM /\ WebpGen.Consts.mux_FourCCANMF = FCC_ANMF /\
  WebpGen.Consts.mux_FourCCICCP = FCC_ICCP /\ WebpGen.Consts.mux_FourCCEXIF = FCC_EXIF /\
  WebpGen.Consts.mux_FourCCXMP = FCC_XMP.
Proof. repeat split; reflexivity. Qed.
Print Assumptions C05_limits_match_source.

(** The OTHER container parser (internal/container/parser.go, the entry point of
    webp.Decode / DecodeConfig / GetFeatures / image.Decode), modelled by the
    riff-parser builder in Riff/ParserModel: on every byte string it returns a value
    or an error class — no slice / index expression is out of range and its chunk
    loops terminate within their fuel (proof: Riff/ParserSafety.parse_ex_safe,
    restated here so that C05 covers both parsers). *)
From Webp Require Riff.ParserModel Riff.ParserSafety.
Theorem C05_parser_total : forall fx data, bytes_ok data ->
  ParserModel.parse_ex fx data <> Panic /\ ParserModel.parse_ex fx data <> Err ParserModel.EOutOfFuel.
Proof. exact ParserSafety.parse_ex_safe. Qed.
Print Assumptions C05_parser_total.

(** The MaxChunkPayload guard of ReadChunkHeader excludes every size for which the
    uint32 chunk-size arithmetic (chunkTotalSize) would wrap; at the boundary:
    0xFFFFFFF6 admitted, 0xFFFFFFF7 refused (its uint32 total would be 0). *)
From Webp Require Riff.MuxModel Riff.MuxRoundtrip.
Theorem C05_chunk_size_guard_excludes_uint32_wrap : forall d id sz, bytes_ok d ->
  read_chunk_header d = Ok (id, sz) ->
  MuxModel.chunk_total sz = 8 + sz + sz mod 2 /\ 8 + sz + sz mod 2 < 4294967296 /\ 0 <= sz.
Proof. exact MuxRoundtrip.chunk_guard_no_u32_wrap. Qed.
Print Assumptions C05_chunk_size_guard_excludes_uint32_wrap.

Theorem C05_chunk_size_guard_boundary :
  read_chunk_header ([65;66;67;68] ++ le32 4294967286) = Ok (1145258561, 4294967286) /\
  read_chunk_header ([65;66;67;68] ++ le32 4294967287) = Err E_big /\
  MuxModel.chunk_total 4294967287 = 0.
Proof. exact MuxRoundtrip.chunk_guard_boundary. Qed.
Print Assumptions C05_chunk_size_guard_boundary.

(** ---- codec layer: resource bounds of the VP8L specification decoder (Vp8l/Vp8lCost),
    for EVERY input ---- *)
From Webp Require Vp8l.Vp8lPrefix Vp8l.Vp8lSpec Vp8l.Vp8lCost Riff.DemuxCodecCost Riff.DemuxAllocSites Alpha.AlphaModel.
From WebpGen Require Allocs.

(** The whole VP8L stream: no run ends out of fuel (every loop terminates within fuel that
    is 1 + the declared pixel count, resp. 1 + the alphabet size), the model never panics,
    and accepted dimensions are at most 2^14 x 2^14 = 2^28 pixels (< MaxImageArea). *)
Theorem C05_vp8l_decode_cost : forall bytes,
  match Vp8lSpec.decode bytes with
  | Ok img => Vp8lCost.dims_ok (Vp8lSpec.i_w img) (Vp8lSpec.i_h img)
  | Err e => e <> Vp8lPrefix.E_FUEL
  | Panic => False
  end.
Proof. exact Vp8lCost.decode_cost. Qed.
Print Assumptions C05_vp8l_decode_cost.

(** One entropy-coded image of declared size w x h (main image, transform data, colour
    table, meta prefix image), for any context and any bit stream: with fuel 1 + w*h the
    token loop always stops by itself (at most one iteration per pixel), reads only input
    bits, takes backward references only inside what it has produced, and yields exactly
    w*h pixels — never more. *)
Theorem C05_vp8l_pixels_cost : forall c w h s,
  match Vp8lSpec.decode_pixels c w h s with
  | Ok (px, s') => length px = Z.to_nat (w * h) /\ (length s' <= length s)%nat
  | Err e => e <> Vp8lPrefix.E_FUEL
  | Panic => False
  end.
Proof. exact Vp8lCost.decode_pixels_cost. Qed.
Print Assumptions C05_vp8l_pixels_cost.

Theorem C05_vp8l_sub_image_cost : forall w h s,
  match Vp8lSpec.decode_sub_image w h s with
  | Ok (px, s') => length px = Z.to_nat (w * h) /\ (length s' <= length s)%nat
  | Err e => e <> Vp8lPrefix.E_FUEL
  | Panic => False
  end.
Proof. exact Vp8lCost.decode_sub_image_cost. Qed.
Print Assumptions C05_vp8l_sub_image_cost.

(** The code-length loop: fuel 1 + (symbols still to assign) always suffices. *)
Theorem C05_vp8l_code_lengths_cost : forall fuel clt ntok nsym prev acc s,
  (Z.to_nat nsym < fuel)%nat ->
  Vp8lCost.shrinks s (Vp8lPrefix.read_lens_loop fuel clt ntok nsym prev acc s).
Proof. exact Vp8lCost.read_lens_loop_shrinks. Qed.
Print Assumptions C05_vp8l_code_lengths_cost.

(** ALPH plane decoder model: dimension guards before anything is built. *)
Theorem C05_alpha_decode_guards : forall (ldec : Z -> Z -> list Z -> option (list Z)) data w h,
  match AlphaModel.decode ldec data w h with
  | Ok _ =>
    1 <= w /\ 1 <= h /\ w * h <= 2^30 /\
    (forall hd payload, data = hd :: payload -> hd mod 4 = 0 -> w * h <= Z.of_nat (length payload))
  | Err _ => True
  | Panic => False
  end.
Proof. exact DemuxCodecCost.alpha_decode_guards. Qed.
Print Assumptions C05_alpha_decode_guards.

(** Allocation sites of the Go decoding paths: the list regenerated from the current source
    is exactly the audited list, and every audited site has a bound class. *)
Theorem C05_alloc_sites_audited :
  map fst DemuxAllocSites.audited_alloc_sites = Allocs.alloc_sites /\
  forallb (fun e => existsb (String.eqb (fst (snd e))) DemuxAllocSites.bound_classes)
          DemuxAllocSites.audited_alloc_sites = true.
Proof. split; [reflexivity|exact DemuxAllocSites.audited_classes_ok]. Qed.
Print Assumptions C05_alloc_sites_audited.

(** The guard behind every table lookup that follows a ReadSymbol (colour-cache index,
    length / distance prefix, code-length code): for every code-length vector the decoder
    accepts and every bit stream, the decoded symbol is an index of the vector, i.e.
    0 <= symbol < alphabet size.  (Partial for the "index in bounds" goal: the Go lookup
    tables themselves are modelled in Vp8l/Vp8lLut, whose two-level theorem is only stated.) *)
From Webp Require Vp8l.Vp8lSymRange.
Theorem C05_vp8l_symbol_in_alphabet_partial : forall lens t s v s',
  Vp8lPrefix.tree_of_lens lens = Ok t -> Vp8lPrefix.read_symbol t s = Ok (v, s') ->
  0 <= v < Z.of_nat (length lens).
Proof. exact Vp8lSymRange.symbol_in_alphabet. Qed.
Print Assumptions C05_vp8l_symbol_in_alphabet_partial.
