(** C05 — no input bytes can crash, hang or exhaust any decoding entry point. *)
From Coq Require Import List ZArith Lia.
From Webp Require Import Base.Res Base.Bytes Riff.DemuxModel.
From WebpGen Require Consts.
Import ListNotations.
Open Scope Z_scope.

Theorem C05_demux_panics_refuted :
  exists bs, bytes_ok bs /\ parse false bs = Panic.
Proof.
  exists [82;73;70;70; 2;0;0;0; 87;69;66;80; 86;80;56;32].
  split; [repeat constructor; unfold is_byte; lia | vm_compute; reflexivity].
Qed.
Print Assumptions C05_demux_panics_refuted.
