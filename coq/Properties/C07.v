(** C07 — Lossy encoding preserves the alpha channel exactly by default.
    Only statements, each closed by [exact <lemma>] and followed by
    [Print Assumptions]. *)
From Coq Require Import List ZArith.
From Webp Require Import Base.Res Alpha.AlphaModel Alpha.AlphaProofs.
Open Scope Z_scope.

(** Every prediction filter is undone exactly by its inverse, for every plane
    (any width >= 0, any height, any byte content). *)
Theorem C07_unfilter_filter : forall w rs f,
  wf_plane w rs -> apply_unfilter f (apply_filter f rs) = rs.
Proof. exact unfilter_filter. Qed.
Print Assumptions C07_unfilter_filter.

(** The ALPH chunk written by encodeAlphaInternal decodes (DecodeAlpha) to the
    plane that was given, for raw and lossless compression, every filter, with
    or without the pre-processing flag, every effort, including the raw fallback
    taken when the compressed payload is larger — for every lossless coder whose
    own round trip is exact (property C01; [lenc]/[ldec] are parameters). *)
Theorem C07_alpha_chunk_roundtrip :
  forall (lenc : Z -> Z -> Z -> Z -> list Z -> list Z) (ldec : Z -> Z -> list Z -> option (list Z)),
  (forall q m w h p, Z.of_nat (length p) = w * h -> Forall is_byte p ->
                     ldec w h (lenc q m w h p) = Some p) ->
  forall rs w h method filter reduce effort,
    1 <= w -> 1 <= h -> w * h <= 2^30 ->
    wf_plane (Z.to_nat w) rs -> Z.of_nat (length rs) = h ->
    (method = 0 \/ method = 1) -> 0 <= filter <= 3 ->
    decode ldec (encode_internal lenc rs w h method filter reduce effort) w h = Ok (concat rs).
Proof. exact alpha_chunk_roundtrip. Qed.
Print Assumptions C07_alpha_chunk_roundtrip.

(** ... whichever filter the size competition in applyFiltersAndEncode picks. *)
Theorem C07_alpha_exact_any_filter_choice :
  forall (lenc : Z -> Z -> Z -> Z -> list Z -> list Z) (ldec : Z -> Z -> list Z -> option (list Z)),
  (forall q m w h p, Z.of_nat (length p) = w * h -> Forall is_byte p ->
                     ldec w h (lenc q m w h p) = Some p) ->
  forall rs w h method reduce effort pick,
    1 <= w -> 1 <= h -> w * h <= 2^30 ->
    wf_plane (Z.to_nat w) rs -> Z.of_nat (length rs) = h ->
    (method = 0 \/ method = 1) ->
    decode ldec (encode_with_choice lenc rs w h method reduce effort pick) w h = Ok (concat rs).
Proof. exact alpha_exact_any_choice. Qed.
Print Assumptions C07_alpha_exact_any_filter_choice.

(** DecodeAlpha never panics, rejects compression methods 2/3 and truncated raw data. *)
Theorem C07_decode_alpha_total : forall ldec data w h, decode ldec data w h <> Panic.
Proof. exact decode_total. Qed.
Print Assumptions C07_decode_alpha_total.

Theorem C07_decode_rejects_unknown_compression : forall ldec hd payload w h,
  2 <= hd mod 4 -> 1 <= w -> 1 <= h -> w * h <= 2^30 -> exists e, decode ldec (hd :: payload) w h = Err e.
Proof. exact decode_rejects_unknown_compression. Qed.
Print Assumptions C07_decode_rejects_unknown_compression.

Theorem C07_decode_raw_truncated : forall ldec hd payload w h,
  hd mod 4 = 0 -> 1 <= w -> 1 <= h -> w * h <= 2^30 -> Z.of_nat (length payload) < w * h ->
  exists e, decode ldec (hd :: payload) w h = Err e.
Proof. exact decode_raw_truncated. Qed.
Print Assumptions C07_decode_raw_truncated.

(** AlphaQuality < 100: the number of levels is in 2..256 and the quantised plane
    takes at most that many distinct values, whatever the float k-means computed. *)
Theorem C07_alpha_levels_range : forall q, 0 <= q < 100 -> 2 <= alpha_levels q <= 256.
Proof. exact alpha_levels_range. Qed.
Print Assumptions C07_alpha_levels_range.

Theorem C07_quantize_levels_bound : forall qlevel centroid data n,
  (forall v, In v data -> 0 <= qlevel v < n) ->
  incl (quantize qlevel centroid data) (map centroid (zseq n)) /\
  length (map centroid (zseq n)) = Z.to_nat n.
Proof. exact quantize_levels_bound. Qed.
Print Assumptions C07_quantize_levels_bound.

(** Smallest / largest alpha are kept, given the three facts the float k-means
    guarantees (stated as hypotheses; checked on the implementation per run). *)
Theorem C07_quantize_keeps_min_max_partial : forall qlevel centroid data lo hi,
  In lo data -> In hi data -> (forall v, In v data -> lo <= v <= hi) ->
  centroid (qlevel lo) = lo -> centroid (qlevel hi) = hi ->
  (forall v, In v data -> lo <= centroid (qlevel v) <= hi) ->
  In lo (quantize qlevel centroid data) /\ In hi (quantize qlevel centroid data) /\
  (forall y, In y (quantize qlevel centroid data) -> lo <= y <= hi).
Proof. exact quantize_keeps_min_max. Qed.
Print Assumptions C07_quantize_keeps_min_max_partial.

(** The same round trip with the lossless coder instantiated — no hypothesis left
    about it: DecodeAlpha's rebuilt 5-byte header in front of the payload, decoded
    by the VP8L SPECIFICATION decoder, for EVERY well-formed plan (choice of
    transforms, codes, tokens …) the lossless encoder may emit for the green image
    of the filtered plane; proved from C03's emit_decode and the header-bytes
    lemma. *)
From Webp Require Import Vp8l.Vp8lEmit Vp8l.Vp8lEmitDecode Conform.ConformFile Conform.ConformAlpha.
Theorem C07_alpha_lossless_chunk_exact_with_spec_decoder : forall rs w h filter r16 (p : plan),
  1 <= w -> 1 <= h -> w * h <= 2^30 ->
  wf_plane (Z.to_nat w) rs -> Z.of_nat (length rs) = h -> 0 <= filter <= 3 ->
  (r16 = 0 \/ r16 = 16) ->
  wf_plan p -> p_alpha p = 0 -> p_w p = w -> p_h p = h ->
  green_of p = concat (apply_filter filter rs) ->
  alpha_decode ((1 + 4 * filter + r16) :: skipn 5 (emit p)) w h = Ok (concat rs).
Proof. exact alpha_lossless_chunk_exact. Qed.
Print Assumptions C07_alpha_lossless_chunk_exact_with_spec_decoder.

(** End to end: the whole lossy file with the ALPH chunk written at AlphaQuality
    100 — VP8 frame emitted from any well-formed set of encoder choices, any
    prediction filter, any well-formed plan of the lossless coder for the
    filtered plane, any metadata within the size guard, the container written
    by the writer model — is a well-formed WebP file from which the independent
    analysis (chunk walk + ALPH model with the VP8L specification decoder inside)
    reads back exactly the alpha plane that was given.  Statement:
    Conform.ConformEndToEndLossy.lossy_alpha_file_conformant_statement. *)
From Webp Require Conform.ConformEndToEndLossy.
Theorem C07_alpha_exact_in_written_file : ConformEndToEndLossy.lossy_alpha_file_conformant_statement.
Proof. exact ConformEndToEndLossy.lossy_alpha_file_conformant. Qed.
Print Assumptions C07_alpha_exact_in_written_file.
