(** C09 — Animation playback implements the container's compositing rules.
    Only statements, each closed by [exact <lemma>] and followed by
    [Print Assumptions]. *)
From Coq Require Import List ZArith.
From Webp Require Import Anim.Blend Anim.Canvas Anim.AnimDec Anim.AnimDecProof Anim.AnimDecOps Anim.AnimDecLoops.
Open Scope Z_scope.

(** For every canvas size, every frame list (any offsets in the int64 range —
    inside, partly or wholly outside the canvas, or overflowing —, any sizes,
    blend x dispose, any HasAlpha flags, any pixel alphas, any length) the snapshots produced by the
    AnimDecoder model (key-frame shortcut, dual buffers, Go rectangle arithmetic,
    uint32 blend) are exactly the canvases the container specification defines. *)
Theorem C09_animdec_refines_spec : forall W H fs,
  wf_dims W H -> Forall wf_frame fs ->
  impl_run W H fs = spec_run W H fs.
Proof. exact animdec_refines_spec. Qed.
Print Assumptions C09_animdec_refines_spec.

(** The same with the loops as the Go code runs them: compositeFrame's and
    fillRect's nested in-place loops over the clipped rectangle (NRGBAAt /
    SetNRGBA on the live canvas), clearCanvas / copy, the key-frame shortcut. *)
Theorem C09_animdec_loops_refine_spec : forall W H fs,
  wf_dims W H -> Forall wf_frame fs -> impl_run_loops W H fs = spec_run W H fs.
Proof. exact animdec_loops_refine_spec. Qed.
Print Assumptions C09_animdec_loops_refine_spec.

(** Histories: for every interleaving of NextFrame and Reset calls, every
    snapshot handed out is the specification's canvas for the frame index it was
    produced for; Reset restarts the sequence identically; calls past the end
    return no picture. *)
Theorem C09_history_refines_spec : forall W H fs ops,
  wf_dims W H -> Forall wf_frame fs ->
  prun W H fs (pinit W H) ops = srun (spec_run W H fs) 0 ops.
Proof. exact history_refines_spec. Qed.
Print Assumptions C09_history_refines_spec.

(** Treating some frames as key frames never changes a result: the decoder with
    the key-frame shortcut equals the decoder that never uses it. *)
Theorem C09_keyframes_never_change_result : forall W H fs,
  wf_dims W H -> Forall wf_frame fs ->
  impl_run W H fs = impl_go_nokey W H (dinit W H) fs.
Proof. exact keyframes_never_change_result. Qed.
Print Assumptions C09_keyframes_never_change_result.

(** The uint32 blend arithmetic of alphaBlendNRGBA never overflows and equals
    the reference formula on all 2^64 pixel pairs. *)
Theorem C09_blend_impl_eq_spec : forall src dst,
  wf_px src -> wf_px dst -> blend_impl src dst = blend_spec src dst.
Proof. exact blend_impl_eq_spec. Qed.
Print Assumptions C09_blend_impl_eq_spec.

Theorem C09_blend_result_is_a_pixel : forall src dst,
  wf_px src -> wf_px dst -> wf_px (blend_spec src dst).
Proof. exact blend_spec_wf. Qed.
Print Assumptions C09_blend_result_is_a_pixel.

Theorem C09_blend_src_transparent : forall src dst, pa src = 0 -> blend_spec src dst = dst.
Proof. exact blend_src_transparent. Qed.
Print Assumptions C09_blend_src_transparent.

Theorem C09_blend_src_opaque : forall src dst, pa src = 255 -> blend_spec src dst = src.
Proof. exact blend_src_opaque. Qed.
Print Assumptions C09_blend_src_opaque.

(** Tie to the source: the canvas-area cap the model assumes ([wf_dims]) is the
    constant the code enforces in NewAnimDecoder (regenerated on every run). *)
From WebpGen Require Consts.
Theorem C09_canvas_cap_matches_model : WebpGen.Consts.animation_maxCanvasArea = 2^30.
Proof. reflexivity. Qed.
Print Assumptions C09_canvas_cap_matches_model.
