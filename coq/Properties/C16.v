(** C16 — Header queries agree with what a full decode returns (container /
    glue layer).  Only statements, each closed by [exact <lemma>] and followed by
    [Print Assumptions].  The pixel codecs are parameters; the only thing assumed
    of them is [codec_dims_from_header] (stated in the theorem). *)
From Coq Require Import List ZArith.
From Webp Require Import Base.Res Base.Bytes Riff.ParserModel Riff.ParserSpec Riff.FeaturesModel
     Riff.PrefixProofs Riff.FeaturesProofs Riff.MetadataProofs Riff.ParserSpecProofs Riff.WriterModel
     Riff.WriterTheorems Riff.ParserGrammar Riff.ParserDemuxAgree Riff.ParserDemuxAnim Riff.FeaturesAlphaLossless.
From Webp Require Riff.RiffGrammar Riff.DemuxModel Vp8l.Vp8lSpec Vp8l.Vp8lEmit Vp8l.Vp8lRoundtrip Vp8l.Vp8lPixel.
Import ListNotations.
Open Scope Z_scope.

(** Repaired DecodeConfig ([len(AlphaData) == 0]), either parser variant, every
    choice of codecs whose picture size is the one the bitstream header declares:
    whenever the Decode glue accepts a still file, DecodeConfig succeeds with the
    decoded image's colour model, width and height, and GetFeatures succeeds with
    the same width and height, FrameCount 1, no animation, a known format name. *)
Theorem C16_config_agrees_with_decode :
  forall (Pix : Type) (lossy_dec lossless_dec : list Z -> Res (Z * Z * Pix))
         (alpha_dec : list Z -> Z -> Z -> Res Pix),
    codec_dims_from_header lossy_dec lossless_dec ->
    forall fx bs r img,
      parse_ex fx bs = Ok (r, KStill) ->
      decode_bytes lossy_dec lossless_dec alpha_dec fx bs = Ok img ->
      decode_config true fx bs = Ok (mkConfig (iModel img) (iW img) (iH img)) /\
      exists g, get_features fx bs = Ok g /\ gW g = iW img /\ gH g = iH img /\
                gFrames g = 1 /\ gHasAnim g = false /\ 1 <= gFormat g <= 3.
Proof. exact @config_agrees_with_decode. Qed.
Print Assumptions C16_config_agrees_with_decode.

(** Pinned DecodeConfig ([AlphaData == nil], before commit f5aa050): false.  VP8X + zero-length ALPH +
    VP8: Decode returns YCbCr, DecodeConfig announces NRGBA (finding). *)
Theorem C16_zero_len_alph_refuted :
  ~ pinned_config_agrees_statement hdr_lossy hdr_lossless any_alpha.
Proof. exact zero_len_alph_refuted. Qed.
Print Assumptions C16_zero_len_alph_refuted.

Theorem C16_zero_len_alph_witness :
  exists img c,
    decode_bytes hdr_lossy hdr_lossless any_alpha false wit_empty_alph = Ok img /\
    pinned_decode_config wit_empty_alph = Ok c /\
    iModel img = CM_YCbCr /\ cModel c = CM_NRGBA /\
    decode_config true false wit_empty_alph = Ok (mkConfig CM_YCbCr 1 1).
Proof. exact zero_len_alph_witness. Qed.
Print Assumptions C16_zero_len_alph_witness.

(** What the parser guarantees about every still it accepts: exactly one frame,
    reported size = size declared by the image bitstream header (not the VP8X
    canvas), animation flag clear, format VP8 / VP8L / VP8X. *)
Theorem C16_still_shape : forall fx bs r, parse_ex fx bs = Ok (r, KStill) ->
  (exists f, pFrames r = [f] /\ fWidth (pFeat r) = frW f /\ fHeight (pFeat r) = frH f /\ header_ok f) /\
  fHasAnim (pFeat r) = false /\ 1 <= fFormat (pFeat r) <= 3.
Proof. exact still_shape. Qed.
Print Assumptions C16_still_shape.

(** LoopCount of a still, exactly: container.Parser (hence GetFeatures) reports 1
    on the VP8X layout and 0 on the simple layouts; there is no ANIM chunk in a
    still.  mux.Demuxer reports 0 for every still (C16_views_agree_still).  The
    field is documented as meaningful only when HasAnimation is set. *)
From Webp Require Riff.FeaturesLimits.
Theorem C16_still_loop_count : forall fx bs r, parse_ex fx bs = Ok (r, KStill) ->
  fLoopCount (pFeat r) = (if fFormat (pFeat r) =? FormatVP8X then 1 else 0).
Proof. exact FeaturesLimits.still_loop_count. Qed.
Print Assumptions C16_still_loop_count.

Theorem C16_get_features_still_loop : forall fx bs r g,
  parse_ex fx bs = Ok (r, KStill) -> get_features fx bs = Ok g ->
  gLoop g = (if gFormat g =? 3 then 1 else 0) /\ gHasAnim g = false.
Proof. exact FeaturesLimits.get_features_still_loop. Qed.
Print Assumptions C16_get_features_still_loop.

(** Alpha flag, files written by this package's RIFF writer: whenever the Decode
    glue attaches a separately decoded alpha plane to the picture (the only way a
    lossy picture gets a non-opaque pixel), GetFeatures reports HasAlpha. *)
Theorem C16_alpha_flag_sound_lossy :
  forall (Pix : Type) (ld ll : list Z -> Res (Z * Z * Pix)) (ad : list Z -> Z -> Z -> Res Pix)
         fourcc bs alpha w h icc exif xmp a fx file img,
    writer_inputs_ok fourcc bs alpha w h icc exif xmp a -> len icc <= MaxMetadataSize ->
    write_riff fourcc bs alpha w h icc exif xmp = Ok file ->
    decode_bytes ld ll ad fx file = Ok img -> iAlpha img <> None ->
    exists g, get_features fx file = Ok g /\ gHasAlpha g = true.
Proof. exact alpha_flag_sound_lossy. Qed.
Print Assumptions C16_alpha_flag_sound_lossy.

(** Alpha flag, LOSSLESS files written by this package: for every source picture,
    options and valid encoder choices (Vp8lRoundtrip.valid, the C01 theorem's
    hypothesis) where the alpha_is_used bit is chosen as the Go encoder chooses it
    (encodeStream(argbHasAlpha(argb)), commit 552ea86), and every metadata, the
    written file's GetFeatures.HasAlpha is true IF AND ONLY IF some pixel of the
    picture the VP8L specification decoder returns is not opaque; width/height
    agree as well.  (Composition of C01_lossless_roundtrip, the emitted header
    bytes, the writer/parser round trip and the GetFeatures glue.) *)
Theorem C16_alpha_flag_sound_lossless :
  forall img o c icc exif xmp fx file,
    Vp8lRoundtrip.valid img o c -> go_alpha_choice img o c ->
    sizes_ok (Vp8lEmit.emit (Vp8lRoundtrip.plan_of img o c)) [] icc exif xmp -> len icc <= MaxMetadataSize ->
    write_riff FourCCVP8L (Vp8lEmit.emit (Vp8lRoundtrip.plan_of img o c)) []
               (Vp8lRoundtrip.s_w img) (Vp8lRoundtrip.s_h img) icc exif xmp = Ok file ->
    exists im g,
      Vp8lSpec.decode (Vp8lEmit.emit (Vp8lRoundtrip.plan_of img o c)) = Ok im /\
      get_features fx file = Ok g /\
      gW g = Vp8lSpec.i_w im /\ gH g = Vp8lSpec.i_h im /\
      (gHasAlpha g = true <-> Exists (fun p => Vp8lPixel.pa p <> 255) (Vp8lSpec.i_px im)).
Proof. exact alpha_flag_sound_lossless. Qed.
Print Assumptions C16_alpha_flag_sound_lossless.

(** Specification view vs parser view: every byte file (up to the metadata cap)
    that the specification-side RIFF walker judges a well-formed still -- sizes,
    padding, chunk order, flags = chunks present, canvas = image size; any blobs,
    also an ALPH chunk with an empty payload -- is accepted by the parser (either
    variant) as a still whose single frame holds exactly the image and ALPH
    payloads the walker finds, with width/height = canvas = the size the bitstream
    header declares, and no animation flag. *)
Theorem C16_wf_still_accepted :
  forall fx file,
    bytes_ok file -> len file <= MaxMetadataSize -> riff_wf file = true ->
    exists r f id w h a,
      parse_ex fx file = Ok (r, KStill) /\ pFrames r = [f] /\
      image_fourcc id /\ frLossless f = (id =? FourCCVP8L) /\
      spec_get_chunk file id = Some (frPayload f) /\
      (frLossless f = false -> frAlpha f = spec_get_chunk file FourCCALPH) /\
      image_dims id (frPayload f) = Some (w, h, a) /\
      fWidth (pFeat r) = w /\ fHeight (pFeat r) = h /\ fCanvasW (pFeat r) = w /\ fCanvasH (pFeat r) = h /\
      fHasAnim (pFeat r) = false.
Proof. exact wf_still_accepted. Qed.
Print Assumptions C16_wf_still_accepted.

(** views_agree across the TWO container parsers (stills): for every byte file
    accepted by the independent grammar Riff.RiffGrammar.wf whose animation flag is
    clear (up to the metadata cap), the model of internal/container.Parser and the
    model of mux.Demuxer (Riff.DemuxModel.parse true, C14/C05 builder) both succeed
    and agree on canvas size, animation flag, frame count (1) and the frame's
    payload, alpha payload, size, offsets, duration, blend and dispose.  Loop count
    is not part of the agreement for stills: the parser reports 1 (extended) or 0
    (simple), the demuxer 0; Features.LoopCount is documented as meaningful only
    for animations. *)
Theorem C16_views_agree_still :
  forall fx bs,
    RiffGrammar.wf bs = true -> g_is_anim bs = false -> len bs <= MaxMetadataSize ->
    exists r d,
      parse fx bs = Ok r /\ DemuxModel.parse true bs = Ok d /\
      Forall2 frame_agrees (pFrames r) (DemuxModel.d_frames d) /\ length (pFrames r) = 1%nat /\
      fCanvasW (pFeat r) = DemuxModel.ft_w (DemuxModel.d_feat d) /\
      fCanvasH (pFeat r) = DemuxModel.ft_h (DemuxModel.d_feat d) /\
      fWidth (pFeat r) = DemuxModel.ft_w (DemuxModel.d_feat d) /\
      fHeight (pFeat r) = DemuxModel.ft_h (DemuxModel.d_feat d) /\
      fHasAnim (pFeat r) = false /\ DemuxModel.ft_anim (DemuxModel.d_feat d) = false /\
      DemuxModel.d_loop d = 0 /\ (fLoopCount (pFeat r) = 1 \/ fLoopCount (pFeat r) = 0).
Proof. exact views_agree_still. Qed.
Print Assumptions C16_views_agree_still.

(** views_agree across the two container parsers (animations): for every byte
    file accepted by Riff.RiffGrammar.wf whose animation flag is set -- VP8X [ICCP]
    ANIM ANMF+ [EXIF] [XMP], every ANMF a 16-byte header plus [ALPH] VP8 | VP8L inside
    the canvas -- up to the limits both implementations enforce (metadata cap,
    canvas area below MaxImageArea = 2^30 which only the parser checks, at most
    MaxFrames = 10000 frames), both models succeed and agree on canvas size,
    animation flag, LOOP COUNT, frame count and every frame's payload, alpha
    payload, size, offsets, duration, blend and dispose. *)
Theorem C16_views_agree_anim :
  forall fx bs,
    RiffGrammar.wf bs = true -> g_is_anim bs = true -> len bs <= MaxMetadataSize ->
    g_canvas_area bs < MaxImageArea -> anmf_count bs <= MaxFrames ->
    exists r d,
      parse fx bs = Ok r /\ DemuxModel.parse true bs = Ok d /\
      Forall2 frame_agrees (pFrames r) (DemuxModel.d_frames d) /\ (0 < length (pFrames r))%nat /\
      fCanvasW (pFeat r) = DemuxModel.ft_w (DemuxModel.d_feat d) /\
      fCanvasH (pFeat r) = DemuxModel.ft_h (DemuxModel.d_feat d) /\
      fWidth (pFeat r) = DemuxModel.ft_w (DemuxModel.d_feat d) /\
      fHeight (pFeat r) = DemuxModel.ft_h (DemuxModel.d_feat d) /\
      fHasAnim (pFeat r) = true /\ DemuxModel.ft_anim (DemuxModel.d_feat d) = true /\
      fLoopCount (pFeat r) = DemuxModel.d_loop d.
Proof. exact views_agree_anim. Qed.
Print Assumptions C16_views_agree_anim.

(** Canvas area at or above MaxImageArea (2^30): both parsers reject the file
    (the demuxer since commit 07b7141), so the views still agree. *)
Theorem C16_big_canvas_both_reject :
  forall fx bs,
    RiffGrammar.wf bs = true -> g_is_anim bs = true -> len bs <= MaxMetadataSize ->
    MaxImageArea <= g_canvas_area bs ->
    parse fx bs = Err EInvalidImage /\ DemuxModel.parse true bs = Err DemuxModel.E_vp8x.
Proof. exact big_canvas_both_reject. Qed.
Print Assumptions C16_big_canvas_both_reject.

(** The shared limits as explicit both-reject statements, on the chunk shapes the
    grammar prescribes (anim_file = RIFF header, VP8X, [ICCP], ANIM, the ANMF frames,
    [EXIF], [XMP]; the shape C16_views_agree_anim reduces every well-formed animated
    file to).  More than MaxFrames frames: container.Parser refuses the 10001st ANMF
    chunk before parsing it, mux.Demuxer after parsing it. *)
From Webp Require Riff.ParserLimits.
Theorem C16_too_many_frames_both_reject :
  forall fx flags cw ch icc b0 b1 b2 b3 b4 b5 fs exif xmp,
    0 <= flags < 64 -> Z.land flags 4294967233 = 0 -> Z.testbit flags 1 = true ->
    Z.testbit flags 5 = is_some icc -> 1 <= cw <= 16777216 -> 1 <= ch <= 16777216 ->
    cw * ch < MaxImageArea -> Forall (af_ok cw ch) fs ->
    (forall x, icc = Some x -> len x <= 104857600) ->
    4 + len (anim_body flags cw ch icc b0 b1 b2 b3 b4 b5 fs exif xmp) <= 4294967286 ->
    MaxFrames < len fs ->
    parse fx (anim_file flags cw ch icc b0 b1 b2 b3 b4 b5 fs exif xmp) = Err EInvalidChunk /\
    DemuxModel.parse true (anim_file flags cw ch icc b0 b1 b2 b3 b4 b5 fs exif xmp) = Err DemuxModel.E_toomany.
Proof. exact ParserLimits.too_many_frames_shape. Qed.
Print Assumptions C16_too_many_frames_both_reject.

(** The same from the grammar: every RiffGrammar.wf animated file (within the size and
    canvas caps) with more than MaxFrames ANMF chunks is rejected by both parsers. *)
Theorem C16_too_many_frames_wf_both_reject : forall fx bs,
  RiffGrammar.wf bs = true -> g_is_anim bs = true -> len bs <= MaxMetadataSize ->
  g_canvas_area bs < MaxImageArea -> MaxFrames < anmf_count bs ->
  parse fx bs = Err EInvalidChunk /\ DemuxModel.parse true bs = Err DemuxModel.E_toomany.
Proof. exact ParserLimits.too_many_frames_both_reject. Qed.
Print Assumptions C16_too_many_frames_wf_both_reject.

(** An ICCP chunk above MaxMetadataSize (100 MB) directly after VP8X (where the
    grammar puts it), whatever follows: both parsers reject the file.  (EXIF / XMP
    above the cap are NOT a shared limit for stills: they follow the image chunk,
    where container.Parser has already returned; see the notes of this property.) *)
Theorem C16_big_iccp_both_reject :
  forall fx flags cw ch ic rest,
    0 <= flags < 64 -> Z.land flags 4294967233 = 0 -> Z.testbit flags 5 = true ->
    1 <= cw <= 16777216 -> 1 <= ch <= 16777216 -> cw * ch < MaxImageArea ->
    MaxMetadataSize < len ic ->
    4 + len (ParserLimits.big_body flags cw ch ic rest) <= 4294967286 ->
    parse fx (ParserLimits.big_file flags cw ch ic rest) = Err EInvalidChunk /\
    DemuxModel.parse true (ParserLimits.big_file flags cw ch ic rest) = Err DemuxModel.E_meta.
Proof. exact ParserLimits.big_iccp_both_reject. Qed.
Print Assumptions C16_big_iccp_both_reject.

(** Both layouts in one statement. *)
Theorem C16_views_agree_two_parsers : forall fx bs,
  RiffGrammar.wf bs = true -> len bs <= MaxMetadataSize ->
  g_canvas_area bs < MaxImageArea -> anmf_count bs <= MaxFrames ->
  exists r d,
    parse fx bs = Ok r /\ DemuxModel.parse true bs = Ok d /\
    Forall2 frame_agrees (pFrames r) (DemuxModel.d_frames d) /\ (0 < length (pFrames r))%nat /\
    fCanvasW (pFeat r) = DemuxModel.ft_w (DemuxModel.d_feat d) /\
    fCanvasH (pFeat r) = DemuxModel.ft_h (DemuxModel.d_feat d) /\
    fHasAnim (pFeat r) = DemuxModel.ft_anim (DemuxModel.d_feat d) /\
    (fHasAnim (pFeat r) = true -> fLoopCount (pFeat r) = DemuxModel.d_loop d).
Proof. exact views_agree_two_parsers. Qed.
Print Assumptions C16_views_agree_two_parsers.

(** Parser-level views (GetFeatures, DecodeConfig, Parser.Features/Frames) fail
    together and agree on size, animation flag, frame count and loop count. *)
Theorem C16_views_agree : forall fa fx bs,
  match get_features fx bs, decode_config fa fx bs with
  | Ok g, Ok c => gW g = cW c /\ gH g = cH c /\
                  (forall r, parse_ex fx bs = Ok (r, KStill) -> gFrames g = 1 /\ gHasAnim g = false) /\
                  (forall r k, parse_ex fx bs = Ok (r, k) ->
                     gFrames g = len (pFrames r) /\ gHasAnim g = fHasAnim (pFeat r) /\
                     gLoop g = fLoopCount (pFeat r))
  | Err e, Err e' => e = e'
  | Panic, Panic => True
  | _, _ => False
  end.
Proof. exact views_agree. Qed.
Print Assumptions C16_views_agree.

(** image.RegisterFormat("webp", "RIFF????WEBP"): the sniffer accepts exactly the
    byte strings with "RIFF" at 0..3 and "WEBP" at 8..11 (12 bytes needed), and
    every byte file the parser accepts is among them. *)
Theorem C16_registered_format : forall bs, sniff bs = true <->
  exists s0 s1 s2 s3 tl, bs = [82; 73; 70; 70; s0; s1; s2; s3; 87; 69; 66; 80] ++ tl.
Proof. exact registered_format. Qed.
Print Assumptions C16_registered_format.

Theorem C16_accepted_files_are_dispatched : forall fx bs r,
  bytes_ok bs -> parse fx bs = Ok r -> sniff bs = true.
Proof. exact accepted_files_are_dispatched. Qed.
Print Assumptions C16_accepted_files_are_dispatched.
