(** C15 — Metadata is stored byte-exact and never affects the picture
    (container layer).  Only statements, each closed by [exact <lemma>] and
    followed by [Print Assumptions].  The image bitstream and the ALPH payload are
    arbitrary byte strings whose header declares the picture size (what Encode's
    codecs hand to writeRIFF); the pixel codecs are parameters. *)
From Coq Require Import List ZArith Bool.
From Webp Require Import Base.Res Base.Bytes Riff.ParserModel Riff.ParserSpec Riff.WriterModel
     Riff.FeaturesModel Riff.MetadataProofs Riff.ParserProofs Riff.WriterTheorems Riff.ParserGrammar.
From Webp Require Riff.RiffGrammar.
Import ListNotations.
Open Scope Z_scope.

(** For every image bitstream, alpha payload and ICC / EXIF / XMP blobs (any
    content, any length incl. empty, 1 byte, odd, even; [len > 0] decides
    presence) within the writer's own size guard: writeRIFF succeeds; each blob is
    read back by chunk id byte for byte (absent iff empty); the file is a
    well-formed RIFF/WebP still (RIFF size, chunk sizes, zero pad bytes, order
    VP8X [ICCP] [ALPH] image [EXIF] [XMP], flags = chunks present, canvas = image);
    and the container parser (either variant) returns the same bitstream / alpha
    bytes in one frame and announces exactly the non-empty blobs. *)
Theorem C15_metadata_roundtrip :
  forall fourcc bs alpha w h icc exif xmp a,
    writer_inputs_ok fourcc bs alpha w h icc exif xmp a ->
    exists file,
      write_riff fourcc bs alpha w h icc exif xmp = Ok file /\
      spec_get_chunk file FourCCICCP = opt_blob icc /\
      spec_get_chunk file FourCCEXIF = opt_blob exif /\
      spec_get_chunk file FourCCXMP = opt_blob xmp /\
      spec_get_chunk file FourCCALPH = opt_blob alpha /\
      spec_get_chunk file fourcc = Some bs /\
      riff_wf file = true /\ len file mod 2 = 0 /\
      (len icc <= MaxMetadataSize -> forall fx, exists r,
         parse_ex fx file = Ok (r, KStill) /\
         pFrames r = [expected_frame fourcc bs alpha w h a] /\
         fWidth (pFeat r) = w /\ fHeight (pFeat r) = h /\
         fHasAlpha (pFeat r) = ((len alpha >? 0) || a) /\
         fHasICCP (pFeat r) = (len icc >? 0) /\ fHasEXIF (pFeat r) = (len exif >? 0) /\
         fHasXMP (pFeat r) = (len xmp >? 0) /\
         pChunks r = expected_chunks icc /\
         fFormat (pFeat r) = (if is_extended alpha icc exif xmp then FormatVP8X
                              else if fourcc =? FourCCVP8L then FormatVP8L else FormatVP8)).
Proof. exact metadata_roundtrip. Qed.
Print Assumptions C15_metadata_roundtrip.

(** The encoder's container writer only emits files that the independent
    grammar of the container specification (Riff.RiffGrammar.wf, C14 / C02 area,
    tags as byte strings) accepts: RIFF size, chunk sizes, zero padding, order
    ICCP -> ALPH -> image -> EXIF -> XMP, VP8X flags = exactly the chunks present
    incl. the VP8L alpha bit, reserved bits zero, canvas = bitstream dimensions. *)
Theorem C15_writer_output_wf : forall fourcc bs alpha w h icc exif xmp a,
  writer_inputs_ok fourcc bs alpha w h icc exif xmp a ->
  bytes_ok bs -> bytes_ok alpha -> bytes_ok icc -> bytes_ok exif -> bytes_ok xmp ->
  exists file, write_riff fourcc bs alpha w h icc exif xmp = Ok file /\ RiffGrammar.wf file = true.
Proof. exact writer_output_wf. Qed.
Print Assumptions C15_writer_output_wf.

(** The two specifications agree on stills: ParserSpec.riff_wf implies
    RiffGrammar.wf, and a RiffGrammar.wf file with a clear animation flag
    satisfies ParserSpec.riff_wf. *)
Theorem C15_riff_wf_grammar : forall file, bytes_ok file -> riff_wf file = true -> RiffGrammar.wf file = true.
Proof. exact riff_wf_grammar. Qed.
Print Assumptions C15_riff_wf_grammar.

Theorem C15_grammar_still_riff_wf : forall file,
  RiffGrammar.wf file = true -> g_is_anim file = false -> riff_wf file = true /\ bytes_ok file.
Proof. exact grammar_still_riff_wf. Qed.
Print Assumptions C15_grammar_still_riff_wf.

(** Changing only the metadata changes neither the image / ALPH chunk bytes, nor
    the frame the parser hands to the codecs, nor (for every choice of codecs)
    what Decode returns. *)
Theorem C15_metadata_irrelevant :
  forall fourcc bs alpha w h a icc1 exif1 xmp1 icc2 exif2 xmp2,
    writer_inputs_ok fourcc bs alpha w h icc1 exif1 xmp1 a ->
    writer_inputs_ok fourcc bs alpha w h icc2 exif2 xmp2 a ->
    len icc1 <= MaxMetadataSize -> len icc2 <= MaxMetadataSize ->
    exists f1 f2,
      write_riff fourcc bs alpha w h icc1 exif1 xmp1 = Ok f1 /\
      write_riff fourcc bs alpha w h icc2 exif2 xmp2 = Ok f2 /\
      spec_get_chunk f1 fourcc = spec_get_chunk f2 fourcc /\
      spec_get_chunk f1 FourCCALPH = spec_get_chunk f2 FourCCALPH /\
      (forall fx, exists r1 r2,
         parse_ex fx f1 = Ok (r1, KStill) /\ parse_ex fx f2 = Ok (r2, KStill) /\
         pFrames r1 = pFrames r2 /\
         fWidth (pFeat r1) = fWidth (pFeat r2) /\ fHeight (pFeat r1) = fHeight (pFeat r2) /\
         fHasAlpha (pFeat r1) = fHasAlpha (pFeat r2)) /\
      (forall (Pix : Type) (ld ll : list Z -> Res (Z * Z * Pix)) (ad : list Z -> Z -> Z -> Res Pix) fx,
         decode_bytes ld ll ad fx f1 = decode_bytes ld ll ad fx f2).
Proof. exact metadata_irrelevant. Qed.
Print Assumptions C15_metadata_irrelevant.

(** The VP8X flags byte: ICC / EXIF / XMP bits = blob non-empty; alpha bit = ALPH
    written or VP8L header alpha bit; animation and reserved bits clear. *)
Theorem C15_flags_exact : forall fourcc bs alpha icc exif xmp,
  let f := vp8x_flags fourcc bs alpha icc exif xmp in
  Z.testbit f 5 = (len icc >? 0) /\ Z.testbit f 3 = (len exif >? 0) /\ Z.testbit f 2 = (len xmp >? 0) /\
  Z.testbit f 4 = ((len alpha >? 0) || vp8l_alpha_bit fourcc bs) /\
  Z.testbit f 1 = false /\ Z.land f 4294967233 = 0 /\ 0 <= f < 64.
Proof. exact flags_exact. Qed.
Print Assumptions C15_flags_exact.

(** The uint64 size guard of writeRIFFExtended fails exactly when the RIFF size
    would not fit, and the pre-sized output buffer is exactly filled. *)
Theorem C15_riff_size_guard_complete : forall fourcc bs alpha w h icc exif xmp,
  (sizes_ok bs alpha icc exif xmp <->
   exists file, write_riff_extended fourcc bs alpha w h icc exif xmp = Ok file) /\
  (~ sizes_ok bs alpha icc exif xmp <->
   write_riff_extended fourcc bs alpha w h icc exif xmp = Err EWriteTooLarge).
Proof. exact riff_size_guard_complete. Qed.
Print Assumptions C15_riff_size_guard_complete.

Theorem C15_write_extended_length : forall fourcc bs alpha w h icc exif xmp file,
  write_riff_extended fourcc bs alpha w h icc exif xmp = Ok file ->
  len file = 8 + riff_size_extended bs alpha icc exif xmp /\ len file mod 2 = 0.
Proof. exact write_extended_length. Qed.
Print Assumptions C15_write_extended_length.

(** Lossless: the streaming fast path (no metadata) and the buffered path write
    the same bytes around the same bitstream. *)
Theorem C15_streaming_eq_buffered : forall bs,
  len bs < 4294967296 - 21 -> Ok (write_lossless_stream bs) = write_riff_simple FourCCVP8L bs.
Proof. exact streaming_eq_buffered. Qed.
Print Assumptions C15_streaming_eq_buffered.

Theorem C15_encode_lossless_container_eq : forall bs w h icc exif xmp,
  len bs < 4294967296 - 21 ->
  encode_lossless_container bs w h icc exif xmp = write_riff FourCCVP8L bs [] w h icc exif xmp.
Proof. exact encode_lossless_container_eq. Qed.
Print Assumptions C15_encode_lossless_container_eq.

(** Animation encoder, repaired Close: with any metadata set the muxer's file
    (which carries it) is written; otherwise only a non-empty strictly smaller
    still candidate may replace it. *)
Theorem C15_anim_close_keeps_metadata : forall frameCount hasPrev animData simple,
  anim_close true frameCount hasPrev true animData simple = animData.
Proof. exact anim_close_keeps_metadata. Qed.
Print Assumptions C15_anim_close_keeps_metadata.

Theorem C15_anim_close_choice : forall fx frameCount hasPrev hasMeta animData simple out,
  anim_close fx frameCount hasPrev hasMeta animData simple = out ->
  out = animData \/ (simple = Some out /\ 0 < len out < len animData /\ frameCount = 1 /\ hasPrev = true).
Proof. exact anim_close_choice. Qed.
Print Assumptions C15_anim_close_choice.

(** Animation encoder, metadata round trip: for every history of muxer operations
    (AddFrame, SetICCProfile, SetEXIF, SetXMP, ... -- all the animation encoder does
    to its muxer) after which some metadata is set, the repaired Close writes the
    muxer's file, the demuxer accepts it and returns each blob byte for byte
    (GetChunk by id).  Composition with the C14 round trip (MuxRoundtrip.extended_roundtrip). *)
From Webp Require Riff.DemuxModel Riff.MuxModel Riff.MuxView Riff.WriterAnimMeta.
Theorem C15_anim_metadata_roundtrip :
  forall ops frameCount hasPrev simple bs,
    Forall MuxView.op_ok ops ->
    let m := MuxModel.run ops in
    WriterAnimMeta.mux_has_meta m = true ->
    MuxModel.assemble MuxModel.repaired m = Ok bs ->
    let out := anim_close true frameCount hasPrev true bs simple in
    out = bs /\
    exists d, DemuxModel.parse true out = Ok d /\
      DemuxModel.d_icc d = MuxModel.m_icc m /\ DemuxModel.d_exif d = MuxModel.m_exif m /\
      DemuxModel.d_xmp d = MuxModel.m_xmp m /\
      (forall x, MuxModel.m_icc m = Some x -> DemuxModel.get_chunk d DemuxModel.FCC_ICCP = Ok x) /\
      (forall x, MuxModel.m_exif m = Some x -> DemuxModel.get_chunk d DemuxModel.FCC_EXIF = Ok x) /\
      (forall x, MuxModel.m_xmp m = Some x -> DemuxModel.get_chunk d DemuxModel.FCC_XMP = Ok x).
Proof. exact WriterAnimMeta.anim_metadata_roundtrip. Qed.
Print Assumptions C15_anim_metadata_roundtrip.

(** Pinned Close (before commit b34a072): one frame + EXIF, the still candidate
    replaces the file and the EXIF chunk is gone (finding, repaired). *)
Theorem C15_anim_single_frame_drops_metadata :
  spec_get_chunk wit_anim_with_meta FourCCEXIF = Some wit_anim_exif /\
  let out := pinned_anim_close 1 true true wit_anim_with_meta (Some wit_anim_simple) in
  out = wit_anim_simple /\ spec_get_chunk out FourCCEXIF = None /\
  anim_close true 1 true true wit_anim_with_meta (Some wit_anim_simple) = wit_anim_with_meta.
Proof. exact anim_single_frame_drops_metadata. Qed.
Print Assumptions C15_anim_single_frame_drops_metadata.

(** Metadata independence of the pixel encoders, from the translator's field-use
    analysis of the root package (Gen/MetaUse.v, regenerated from /repo on every
    run): every function reachable in the package's call graph from
    encodeLossyWithAlpha / encodeLossless / encodeLosslessToWriter is a declared
    function, mentions none of EncoderOptions.ICC / EXIF / XMP and hands no
    EncoderOptions value to code the analysis cannot see; the only functions that
    mention the metadata are Encode, validateConfig and writeRIFF (the ones the
    models of this property cover). *)
From Coq Require Import String.
From Webp Require Riff.WriterMetaUse.
From WebpGen Require MetaUse.
Theorem C15_pixel_encoders_ignore_metadata : forall f,
  WriterMetaUse.Reach MetaUse.call_graph MetaUse.pixel_encoder_roots f ->
  In f (map fst MetaUse.call_graph) /\
  ~ In f (map fst MetaUse.meta_touch) /\ ~ In f (map fst MetaUse.meta_escape).
Proof. exact WriterMetaUse.pixel_encoders_ignore_metadata. Qed.
Print Assumptions C15_pixel_encoders_ignore_metadata.

Theorem C15_metadata_readers_are_modelled :
  map fst MetaUse.meta_touch = ["Encode"; "validateConfig"; "writeRIFF"]%string /\
  MetaUse.meta_fields = ["ICC"; "EXIF"; "XMP"]%string.
Proof. exact WriterMetaUse.metadata_readers_are_modelled. Qed.
Print Assumptions C15_metadata_readers_are_modelled.

