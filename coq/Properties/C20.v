(** C20 — option handling is total and matches its documentation.
    Only statements, each closed by [exact <lemma>] and followed by [Print Assumptions].
    Model: Opts/OptsModel.v (interprets the tables tools/gosrc2v regenerates from
    validateConfig, DefaultOptions, OptionsForPreset, resolve*, the propagation block of
    encodeLossyWithAlpha, lossy.DefaultConfig); documented values: Opts/OptsDoc.v. *)
From Coq Require Import List ZArith Bool.
From WebpGen Require Consts Funcs.
From Webp Require Import Base.Res Opts.OptsModel Opts.OptsDoc Opts.OptsProof Opts.OptsAnim.
Import ListNotations.
Open Scope Z_scope.

(** Every bound of validateConfig, every default of DefaultOptions, every preset row,
    every resolve* default, lossy.DefaultConfig, every propagation condition (>= 0 vs > 0),
    the dimension limits and the struct shapes, as extracted from the source on this run,
    equal the documented values; and the verif hook replicates encode.go verbatim. *)
Theorem C20_source_matches_documentation : source_matches_documentation.
Proof. exact source_matches_documentation_holds. Qed.
Print Assumptions C20_source_matches_documentation.

(** Encode never panics: for every writer/image nil-ness, nil or arbitrary options (all of
    Z for every int field, every float32 class incl. NaN, +-Inf, -0, subnormals), any
    dimensions. *)
Theorem C20_encode_total : forall writer_nil image_nil oo w h has_alpha,
  encode_outcome writer_nil image_nil oo w h has_alpha <> Panic.
Proof. exact encode_total. Qed.
Print Assumptions C20_encode_total.

(** ... and it fails exactly in the documented cases. *)
Theorem C20_encode_errors_exactly_documented : forall wn inl oo w h ha,
  (exists e, encode_outcome wn inl oo w h ha = Err e) <->
  (wn = true \/ inl = true \/ ~ doc_valid (opts_or_default oo) \/ w <= 0 \/ h <= 0 \/ w > 16383 \/ h > 16383).
Proof. exact encode_errors_exactly_documented. Qed.
Print Assumptions C20_encode_errors_exactly_documented.

(** Every configuration handed to a codec satisfies the codec's own preconditions. *)
Theorem C20_validate_complete : forall oo w h ha e,
  effective oo w h ha = Ok e -> codec_pre w h e.
Proof. exact validate_complete. Qed.
Print Assumptions C20_validate_complete.

Theorem C20_nil_is_default : forall w h ha,
  effective None w h ha = effective (Some default_options) w h ha.
Proof. exact nil_is_default. Qed.
Print Assumptions C20_nil_is_default.

Theorem C20_default_resolves_to_documented_defaults : forall w h ha, 1 <= w <= 16383 -> 1 <= h <= 16383 ->
  effective None w h ha =
  Ok (ELossy (mkL 75 0 (FFin 0) 4 50 60 0 1 0 4 1 0 None 0 100 (if ha then 1 else 0)) (mkA 100 1 4 4) false false (0, 0, 0)).
Proof. exact default_resolves_to_documented_defaults. Qed.
Print Assumptions C20_default_resolves_to_documented_defaults.

(** One theorem per documented sentinel: for every other option value, dimensions and
    alpha-ness, the sentinel behaves as the documented default. *)
Theorem C20_sentinel_SNSStrength : forall o w h ha s, s < 0 ->
  effective (Some (set_int F.fld_SNSStrength s o)) w h ha = effective (Some (set_int F.fld_SNSStrength 50 o)) w h ha.
Proof. exact sentinel_SNSStrength. Qed.
Print Assumptions C20_sentinel_SNSStrength.

Theorem C20_sentinel_FilterStrength : forall o w h ha s, s < 0 ->
  effective (Some (set_int F.fld_FilterStrength s o)) w h ha = effective (Some (set_int F.fld_FilterStrength 60 o)) w h ha.
Proof. exact sentinel_FilterStrength. Qed.
Print Assumptions C20_sentinel_FilterStrength.

Theorem C20_sentinel_FilterType : forall o w h ha s, s < 0 ->
  effective (Some (set_int F.fld_FilterType s o)) w h ha = effective (Some (set_int F.fld_FilterType 1 o)) w h ha.
Proof. exact sentinel_FilterType. Qed.
Print Assumptions C20_sentinel_FilterType.

Theorem C20_sentinel_Segments : forall o w h ha s, s <= 0 ->
  effective (Some (set_int F.fld_Segments s o)) w h ha = effective (Some (set_int F.fld_Segments 4 o)) w h ha.
Proof. exact sentinel_Segments. Qed.
Print Assumptions C20_sentinel_Segments.

Theorem C20_sentinel_Pass : forall o w h ha s, s <= 0 ->
  effective (Some (set_int F.fld_Pass s o)) w h ha = effective (Some (set_int F.fld_Pass 1 o)) w h ha.
Proof. exact sentinel_Pass. Qed.
Print Assumptions C20_sentinel_Pass.

Theorem C20_sentinel_QMax : forall o w h ha s, s < 0 ->
  effective (Some (set_int F.fld_QMax s o)) w h ha = effective (Some (set_int F.fld_QMax 100 o)) w h ha.
Proof. exact sentinel_QMax. Qed.
Print Assumptions C20_sentinel_QMax.

Theorem C20_sentinel_AlphaCompression : forall o w h ha s, s < 0 ->
  effective (Some (set_int F.fld_AlphaCompression s o)) w h ha = effective (Some (set_int F.fld_AlphaCompression 1 o)) w h ha.
Proof. exact sentinel_AlphaCompression. Qed.
Print Assumptions C20_sentinel_AlphaCompression.

Theorem C20_sentinel_AlphaFiltering : forall o w h ha s, s < 0 ->
  effective (Some (set_int F.fld_AlphaFiltering s o)) w h ha = effective (Some (set_int F.fld_AlphaFiltering 1 o)) w h ha.
Proof. exact sentinel_AlphaFiltering. Qed.
Print Assumptions C20_sentinel_AlphaFiltering.

Theorem C20_sentinel_AlphaQuality : forall o w h ha s, s < 0 ->
  effective (Some (set_int F.fld_AlphaQuality s o)) w h ha = effective (Some (set_int F.fld_AlphaQuality 100 o)) w h ha.
Proof. exact sentinel_AlphaQuality. Qed.
Print Assumptions C20_sentinel_AlphaQuality.

(** Two valid lossless requests that agree on Quality, Method, Exact and the metadata
    resolve to the same configuration whatever the lossy-only options (SNS, filter*,
    partitions, segments, pass, QMin/QMax, alpha*, UseSharpYUV, Preprocessing,
    TargetSize/PSNR, Preset, EmulateJpegSize) and the image's alpha-ness are. *)
Theorem C20_lossy_only_ignored_by_lossless : forall o o' w h ha ha',
  oLossless o = true -> oLossless o' = true -> lossless_view o = lossless_view o' ->
  validate o = false -> validate o' = false ->
  effective (Some o) w h ha = effective (Some o') w h ha'.
Proof. exact lossy_only_ignored_by_lossless. Qed.
Print Assumptions C20_lossy_only_ignored_by_lossless.

Theorem C20_no_effect_EmulateJpegSize : forall o b w h ha,
  effective (Some (set_bool F.fld_EmulateJpegSize b o)) w h ha = effective (Some o) w h ha.
Proof. exact no_effect_EmulateJpegSize. Qed.
Print Assumptions C20_no_effect_EmulateJpegSize.

Theorem C20_no_effect_Preset : forall o p w h ha, 0 <= p <= 5 -> 0 <= oPreset o <= 5 ->
  effective (Some (set_int F.fld_Preset p o)) w h ha = effective (Some o) w h ha.
Proof. exact no_effect_Preset. Qed.
Print Assumptions C20_no_effect_Preset.

Theorem C20_preset_table : forall p q, options_for_preset p q = doc_preset p q.
Proof. exact preset_table. Qed.
Print Assumptions C20_preset_table.

(** The rate control (lossy.initPassStats) resolves QMax a third time; every explicit value in
    0..100 is honoured. *)
Theorem C20_ratectl_qmax_positive_honoured_partial : forall v, 0 < v <= 100 -> ratectl_qmax v = v.
Proof. exact ratectl_qmax_positive_honoured. Qed.
Print Assumptions C20_ratectl_qmax_positive_honoured_partial.

(** Full statement (holds since 17c8929; breaks if the source rule changes back to [<= 0]). *)
Theorem C20_ratectl_honours_explicit_qmax : forall v, 0 <= v <= 100 -> ratectl_qmax v = v.
Proof. exact ratectl_honours_explicit_qmax_holds. Qed.
Print Assumptions C20_ratectl_honours_explicit_qmax.

(** The historic defect, about a pinned definition (no run selects it). *)
Theorem C20_pinned_ratectl_le_rule_refuted : exists v, 0 <= v <= 100 /\ pinned_ratectl_qmax_le_rule v <> v.
Proof. exact pinned_ratectl_le_rule_refuted. Qed.
Print Assumptions C20_pinned_ratectl_le_rule_refuted.

(** QMin / QMax are documented as the minimum / maximum quantizer value.  On the faithful model
    the quality handed to the lossy codec is NOT always inside [QMin, QMax]: without TargetSize /
    TargetPSNR the range is ignored (witness: Quality 90, QMin = QMax = 30 -> 90).
    Known finding qrange-ignored:none. *)
Theorem C20_quality_in_range_refuted :
  exists o c a e s m, validate o = false /\ effective (Some o) 16 16 false = Ok (ELossy c a e s m) /\
                      cTargetSize c = 0 /\ cQMax c < cQuality c.
Proof. exact quality_in_range_refuted. Qed.
Print Assumptions C20_quality_in_range_refuted.

(** With a target (TargetSize or TargetPSNR) the quality handed to the codec lies in [QMin, QMax]
    for every option value (holds since d401cf2; breaks if the clamps leave the propagation block). *)
Theorem C20_quality_in_range_when_target : forall oo w h ha c a e s m,
  effective oo w h ha = Ok (ELossy c a e s m) ->
  (cTargetSize c >? 0) || fl_gt (cTargetPSNR c) 0 = true -> cQMin c <= cQuality c <= cQMax c.
Proof. exact quality_in_range_when_target_holds. Qed.
Print Assumptions C20_quality_in_range_when_target.

(** The historic defect, about the pinned unclamped configuration. *)
Theorem C20_pinned_unclamped_config_out_of_range :
  let c := lossy_config_pre (ex_q90_range30 600) 90 false in
  cTargetSize c = 600 /\ cQMax c = 30 /\ cQuality c = 90.
Proof. exact pinned_unclamped_config_out_of_range. Qed.
Print Assumptions C20_pinned_unclamped_config_out_of_range.

(** ---- every field, from the regenerated tables ---- *)

(** Every non-bool field of EncoderOptions (int, float32, Preset, blob) is constrained by at
    least one check of validateConfig. *)
Theorem C20_every_numeric_field_validated :
  forallb (fun f => (kind_of f =? 0) || negb (match field_atoms f with [] => true | _ => false end)) field_ids = true.
Proof. exact every_numeric_field_validated. Qed.
Print Assumptions C20_every_numeric_field_validated.

(** Every float32 field is checked for NaN, for +-Inf and for negative values. *)
Theorem C20_every_float_field_rejects_nan_inf_negative :
  forallb (fun f => negb (kind_of f =? 1) ||
                    (has_atom (fun a => match a with F.VNaN _ => true | _ => false end) f &&
                     has_atom (fun a => match a with F.VInf _ => true | _ => false end) f &&
                     has_atom (fun a => match a with F.VLt _ 0 => true | _ => false end) f)) field_ids = true.
Proof. exact every_float_field_rejects_nan_inf_negative. Qed.
Print Assumptions C20_every_float_field_rejects_nan_inf_negative.

(** Every int field except TargetSize ("target size in bytes") has an upper bound. *)
Theorem C20_every_int_field_bounded_above :
  forallb (fun f => negb ((kind_of f =? 2) || (kind_of f =? 4)) || (f =? F.fld_TargetSize) ||
                    has_atom (fun a => match a with F.VGt _ _ | F.VResGt _ _ _ _ | F.VGtRes _ _ _ _ => true | _ => false end) f) field_ids = true.
Proof. exact every_int_field_bounded_above_except_target_size. Qed.
Print Assumptions C20_every_int_field_bounded_above.

(** ---- documentation conformance, field by field ---- *)

(** A field left at its DefaultOptions() value resolves to the documented default whatever the
    other fields are (SNS 50, filter strength 60, strong filter, 4 segments, 1 pass, QMax 100,
    QMin 0, 1 partition, sharpness 0, method 4, lossless fast-filtered alpha at quality 100). *)
Theorem C20_default_resolves_to_documented : forall o q ha,
  (oSNSStrength o = -1 -> cSNS (lossy_config o q ha) = 50) /\
  (oFilterStrength o = -1 -> cFStrength (lossy_config o q ha) = 60) /\
  (oFilterType o = -1 -> cFType (lossy_config o q ha) = 1) /\
  (oSegments o = -1 -> cSegments (lossy_config o q ha) = 4) /\
  (oPass o = -1 -> cPass (lossy_config o q ha) = 1) /\
  (oQMax o = -1 -> cQMax (lossy_config o q ha) = 100) /\
  (oQMin o = 0 -> cQMin (lossy_config o q ha) = 0) /\
  (oPartitions o = 0 -> cPartitions (lossy_config o q ha) = 0) /\
  (oFilterSharpness o = 0 -> cFSharpness (lossy_config o q ha) = 0) /\
  (oMethod o = 4 -> cMethod (lossy_config o q ha) = 4) /\
  (oAlphaCompression o = -1 -> aMethod (alpha_config o) = 1) /\
  (oAlphaFiltering o = -1 -> aFilter (alpha_config o) = 4) /\
  (oAlphaQuality o = -1 -> aQuality (alpha_config o) = 100).
Proof. exact default_resolves_to_documented. Qed.
Print Assumptions C20_default_resolves_to_documented.

(** The zero value EncoderOptions{} is accepted and is not DefaultOptions(). *)
Theorem C20_zero_value_options_resolve_to : forall w h ha, 1 <= w <= 16383 -> 1 <= h <= 16383 ->
  effective (Some zero_opts) w h ha =
  Ok (ELossy (mkL 0 0 (FFin 0) 0 0 0 0 0 0 4 1 0 None 0 0 (if ha then 1 else 0)) (mkA 0 0 0 0) false false (0, 0, 0)).
Proof. exact zero_value_options_resolve_to. Qed.
Print Assumptions C20_zero_value_options_resolve_to.

(** ---- animation.EncodeOptions: never validated, total for every int value ---- *)

Theorem C20_anim_source_matches_model : anim_source_matches_model.
Proof. exact anim_source_matches_model_holds. Qed.
Print Assumptions C20_anim_source_matches_model.

Theorem C20_anim_loop_count_total : forall v, 0 <= clamp_loop_count v <= 65535.
Proof. exact loop_count_total. Qed.
Print Assumptions C20_anim_loop_count_total.

Theorem C20_anim_sanitize_keyframes_total : forall kmin kmax, is_int kmin -> is_int kmax ->
  is_int (fst (sanitize_keyframes kmin kmax)) /\ is_int (snd (sanitize_keyframes kmin kmax)) /\
  (sanitize_keyframes kmin kmax = (0, 0) \/
   (fst (sanitize_keyframes kmin kmax) < snd (sanitize_keyframes kmin kmax) /\ 2 <= snd (sanitize_keyframes kmin kmax))).
Proof. exact sanitize_keyframes_total. Qed.
Print Assumptions C20_anim_sanitize_keyframes_total.

(** "at most 30 cached frames": for kmin >= 0; refuted for kmin = MinInt, kmax = 2 (the
    subtraction kmax - kmin wraps).  Without behavioural effect today: Kmin is never read. *)
Theorem C20_anim_keyframe_window_partial : forall kmin kmax, 0 <= kmin -> is_int kmin -> is_int kmax -> 2 <= kmax ->
  snd (sanitize_keyframes kmin kmax) - fst (sanitize_keyframes kmin kmax) <= 30.
Proof. exact sanitize_keyframes_window. Qed.
Print Assumptions C20_anim_keyframe_window_partial.

Theorem C20_anim_keyframe_window_refuted :
  exists kmin kmax, is_int kmin /\ is_int kmax /\ 2 <= kmax /\
    snd (sanitize_keyframes kmin kmax) - fst (sanitize_keyframes kmin kmax) > 30.
Proof. exact sanitize_keyframes_window_refuted. Qed.
Print Assumptions C20_anim_keyframe_window_refuted.

(** Frames of an animation are encoded without validateConfig.  Lossy: for EVERY int quality
    the configuration is inside the codec's ranges (lossy.DefaultConfig clamps). *)
Theorem C20_anim_lossy_frame_config_total : forall q ha c a e s m,
  anim_frame_config false q ha = ELossy c a e s m -> lossy_pre c /\ alpha_pre a.
Proof. exact anim_lossy_frame_config_total. Qed.
Print Assumptions C20_anim_lossy_frame_config_total.

(** Lossless: the VP8L configuration is inside the codec's range for EVERY int quality (holds
    since 09c6c50; breaks if encodeFrameForAnimation stops clamping). *)
Theorem C20_anim_lossless_frame_total : forall q l m,
  anim_frame_config true q false = ELossless l m -> lossless_pre l.
Proof. exact anim_lossless_frame_total_holds. Qed.
Print Assumptions C20_anim_lossless_frame_total.

(** The historic defect, about a pinned definition (no run selects it). *)
Theorem C20_pinned_anim_lossless_unclamped_refuted : exists q, ~ lossless_pre (pinned_anim_lossless_config_unclamped q).
Proof. exact pinned_anim_lossless_unclamped_refuted. Qed.
Print Assumptions C20_pinned_anim_lossless_unclamped_refuted.


Theorem C20_anim_lossless_frame_config_in_range_partial : forall q l m, 0 <= q <= 100 ->
  anim_frame_config true q false = ELossless l m -> lossless_pre l.
Proof. exact anim_lossless_frame_config_in_range. Qed.
Print Assumptions C20_anim_lossless_frame_config_in_range_partial.

(** Kmin is sanitized but is the one option field the encoder never reads (regenerated read
    counts).  The documentation only constrains frames closer than Kmin ("always sub-frames");
    see CFG notes: no keyframe below Kmin could be produced on the real encoder. *)
Theorem C20_anim_kmin_is_the_only_unused_field : anim_unused_fields = [F.afld_Kmin].
Proof. exact anim_kmin_is_the_only_unused_field. Qed.
Print Assumptions C20_anim_kmin_is_the_only_unused_field.

(** ---- the Preprocessing bit set ---- *)

(** The lossy package reads the bit set only through `Preprocessing & 1 != 0` (regenerated list of
    every read; another shape, e.g. a comparison with a constant, REFUSES), the propagation block
    tests `& 2` for the dithering. *)
Theorem C20_preprocessing_tests_match_doc : F.lossy_preprocessing_tests = doc_preprocessing_tests /\ F.dither_mask = 2.
Proof. exact preprocessing_tests_match_doc. Qed.
Print Assumptions C20_preprocessing_tests_match_doc.

(** Each bit acts whatever the other bit is: for every accepted lossy request the segment map is
    smoothed iff Preprocessing is 1 or 3 (and several segments are used) and dithering is on iff it
    is 2 or 3 - the documented table 0 none, 1 segment smooth, 2 dithering, 3 both. *)
Theorem C20_preprocessing_bits_meaning : forall oo w h ha c a e s m,
  effective oo w h ha = Ok (ELossy c a e s m) ->
  0 <= cPreprocessing c <= 3 /\
  segment_smooth_on c = ((cSegments c >? 1) && ((cPreprocessing c =? 1) || (cPreprocessing c =? 3))) /\
  dither_on c = ((cPreprocessing c =? 2) || (cPreprocessing c =? 3)).
Proof. exact preprocessing_bits_meaning. Qed.
Print Assumptions C20_preprocessing_bits_meaning.
