(** C14 — muxing then demuxing returns exactly what was put in.
    Models: Riff/MuxModel (mux/mux.go), Riff/DemuxModel (mux/demux.go, chunk.go),
    Riff/RiffGrammar (container specification), Riff/MuxView (what "put in" means). *)
From Coq Require Import List ZArith Lia Bool.
From Webp Require Import Base.Res Base.Bytes Riff.RiffGrammar Riff.DemuxModel Riff.DemuxTotal
  Riff.MuxModel Riff.MuxView Riff.MuxProofs Riff.MuxRefuted Riff.MuxRoundtrip Riff.MuxWf.
From WebpGen Require Consts.
Import ListNotations.
Open Scope Z_scope.

(** FULL STATEMENT (not proved in general, see the _partial theorems; false for the
    still-canvas class, see C14_current_still_canvas_refuted): for every history of
    Muxer calls satisfying the hypotheses, Assemble of the current code either
    returns an error, or bytes that are a well-formed container and demux to the
    view of what was put in; it never panics. *)
Definition C14_full_statement : Prop := roundtrip_statement repaired true.

(** Simple layout (single VP8 / VP8L frame, nothing that needs VP8X), any muxer
    state reached by any history, any variant: the assembled bytes are well formed
    and demux back to exactly that bitstream, its dimensions, no metadata. *)
Theorem C14_simple_layout_roundtrip_partial : forall fx dfx data fo m,
  m_frames m = [mkmf data fo] ->
  needs_vp8x fx m = false -> validate fx m = Ok tt ->
  bytes_ok data -> len data < 2147483648 ->
  frame_parts data = Some (None, data) ->
  (is_some' (vp8_header data) || is_some' (vp8l_header data)) = true ->
  exists bs, assemble fx m = Ok bs /\ wf bs = true /\
    match parse dfx bs with
    | Ok d =>
      (exists ha, d_frames d = [mkfi (Some data) None (fst (frame_dims data)) (snd (frame_dims data)) 0 0 0 true ha 0 0]) /\
      d_icc d = None /\ d_exif d = None /\ d_xmp d = None /\ d_loop d = 0 /\ d_bg d = 0 /\
      ft_anim (d_feat d) = false /\ (ft_w (d_feat d), ft_h (d_feat d)) = frame_dims data
    | _ => False
    end.
Proof. exact simple_layout_roundtrip. Qed.
Print Assumptions C14_simple_layout_roundtrip_partial.

(** C14 for the current code, all layouts (simple, VP8X still, animated with or without
    ALPH sub-chunks), EVERY history of Muxer calls satisfying the hypotheses whose final
    state is outside the still-canvas class (explicit canvas different from the picture
    on a still image: there the statement is false, C14_current_still_canvas_refuted):
    Assemble returns an error, or bytes that the independent container grammar accepts
    (RiffGrammar.wf) and that demux to exactly the view of what was put in; never panics. *)
Theorem C14_mux_demux_roundtrip : forall ops,
  Forall op_ok ops ->
  let m := run ops in
  still_canvas_ok m ->
  match assemble repaired m with
  | Err _ => True
  | Panic => False
  | Ok bs =>
    wf bs = true /\
    match parse true bs with
    | Ok d => view_of_demux d = Some (view_of_mux m)
    | _ => False
    end
  end.
Proof. exact roundtrip_current. Qed.
Print Assumptions C14_mux_demux_roundtrip.

Theorem C14_animated_files_well_formed : forall m bs,
  mok m -> is_animated m = true -> assemble repaired m = Ok bs -> wf bs = true.
Proof. exact animated_wf. Qed.
Print Assumptions C14_animated_files_well_formed.

(** the hypotheses (incl. still_canvas_ok) are met by a non-trivial history *)
Theorem C14_mux_demux_roundtrip_example :
  Forall op_ok [AddFrame w_alph (opts 10 2 4); AddFrame w_vp8 (opts 20 0 0); SetLoopCount 3; SetXMP (Some [])] /\
  still_canvas_ok (run [AddFrame w_alph (opts 10 2 4); AddFrame w_vp8 (opts 20 0 0); SetLoopCount 3; SetXMP (Some [])]).
Proof.
  split; [repeat (apply Forall_cons; [vm_compute; reflexivity|]); apply Forall_nil|].
  left. vm_compute. reflexivity.
Qed.
Print Assumptions C14_mux_demux_roundtrip_example.

(** Assemble in the middle of a history reads the muxer state and never changes it: a
    history with Assemble calls reaches the state (hence the final bytes) of the same
    history without them.  (On the Go side: the final Assemble must equal that of a fresh
    Muxer fed the non-Assemble calls; checked per run.) *)
Theorem C14_assemble_call_is_identity : forall ops,
  run ops = run (filter (fun o => match o with AssembleCall => false | _ => true end) ops).
Proof. exact run_ignores_assemble_calls. Qed.
Print Assumptions C14_assemble_call_is_identity.

(** Frame limit: whatever the history (no hypothesis), the muxer never holds more frames
    than the demuxer accepts; both limits are the constant of the current source. *)
Theorem C14_frame_limit_consistent :
  (forall ops, len (m_frames (run ops)) <= maxFrames) /\
  MuxModel.MaxFrames = DemuxModel.maxFrames /\
  WebpGen.Consts.container_MaxFrames = MuxModel.MaxFrames /\ WebpGen.Consts.mux_maxFrames = DemuxModel.maxFrames.
Proof. split; [exact frames_bounded|repeat split; reflexivity]. Qed.
Print Assumptions C14_frame_limit_consistent.

(** Metadata above maxMetadataSize (excluded by the hypotheses; finding meta-too-large):
    the demuxer's chunk switch refuses such a chunk whatever else the file holds, while
    validate / Assemble of the current muxer do not look at blob sizes. *)
Theorem C14_meta_too_large_demux_rejects : forall d id n p rest,
  (id = FCC_ICCP \/ id = FCC_EXIF \/ id = FCC_XMP) -> len p > maxMetadataSize ->
  ext_dispatch d (mkchunk id n p) rest = Err E_meta.
Proof. exact meta_too_large_demux_rejects. Qed.
Print Assumptions C14_meta_too_large_demux_rejects.

(** Extended layouts, EVERY history (induction over the call history + invariants of the
    chunk loops): whenever the current Assemble succeeds and writes a VP8X file — a still
    picture with metadata and/or ALPH, or an animation of any number of frames with or
    without ALPH sub-chunks — all bytes are in range, the RIFF size field covers the file
    exactly, and the demuxer returns exactly the view of what was put in (bitstreams and
    alpha payloads byte for byte, offsets rounded down to even, durations, blend/dispose,
    loop count, background, canvas, metadata).  Assemble never panics.
    Partial only in that RiffGrammar.wf of these bytes is not proved (checked per run). *)
Theorem C14_extended_roundtrip_partial : forall ops,
  Forall op_ok ops ->
  let m := run ops in
  match assemble repaired m with
  | Err _ => True
  | Panic => False
  | Ok bs =>
    needs_vp8x repaired m = true ->
    bytes_ok bs /\ rd32 (firstn 4 (skipn 4 bs)) + 8 = len bs /\
    match parse true bs with
    | Ok d => view_of_demux d = Some (view_of_mux m)
    | _ => False
    end
  end.
Proof. exact extended_roundtrip. Qed.
Print Assumptions C14_extended_roundtrip_partial.

Theorem C14_assemble_never_panics : forall m, assemble repaired m <> Panic.
Proof. exact assemble_no_panic. Qed.
Print Assumptions C14_assemble_never_panics.

(** the hypotheses are satisfiable by a non-trivial history (kernel-evaluated) *)
Theorem C14_extended_roundtrip_example :
  Forall op_ok [AddFrame w_alph (opts 10 2 4); AddFrame w_vp8 (opts 20 0 0); SetLoopCount 3; SetXMP (Some [])] /\
  needs_vp8x repaired (run [AddFrame w_alph (opts 10 2 4); AddFrame w_vp8 (opts 20 0 0); SetLoopCount 3; SetXMP (Some [])]) = true.
Proof. split; [repeat (apply Forall_cons; [vm_compute; reflexivity|]); apply Forall_nil|vm_compute; reflexivity]. Qed.
Print Assumptions C14_extended_roundtrip_example.

(** Chunk write/read round trip with padding: whatever follows it, a chunk written by
    writeDataChunk is read back by ReadChunk as (id, size, payload), consuming exactly
    the bytes written including the padding byte of an odd payload. *)
Theorem C14_chunk_write_read_roundtrip : forall id p rest,
  0 <= id < 4294967296 -> len p <= MaxChunkPayload ->
  read_chunk (write_data_chunk id p ++ rest) = Ok (mkchunk id (len p) p, len (write_data_chunk id p)).
Proof. exact read_chunk_write. Qed.
Print Assumptions C14_chunk_write_read_roundtrip.

Theorem C14_chunk_total_size_correct : forall id p, len p < 2147483648 ->
  len (write_data_chunk id p) = chunk_total (u32 (len p)) /\ len (write_data_chunk id p) mod 2 = 0.
Proof. intros id p H. split; [apply chunk_total_correct|apply write_data_chunk_even]; exact H. Qed.
Print Assumptions C14_chunk_total_size_correct.

(** The ANMF chunk written for any frame (any data, with or without ALPH prefix, any
    options) has exactly the size assembleExtended adds to the RIFF size, and is even. *)
Theorem C14_anmf_size_correct : forall f, len (f_data f) < 1073741824 ->
  len (write_anmf f) = frame_riff_size repaired true f /\ len (write_anmf f) mod 2 = 0.
Proof. exact anmf_size_correct. Qed.
Print Assumptions C14_anmf_size_correct.

Theorem C14_flags_derivation : forall m,
  let fl := vp8x_flags m in
  (negb ((fl / 2) mod 2 =? 0) = is_animated m) /\
  (negb ((fl / 32) mod 2 =? 0) = is_some (m_icc m)) /\
  (negb ((fl / 8) mod 2 =? 0) = is_some (m_exif m)) /\
  (negb ((fl / 4) mod 2 =? 0) = is_some (m_xmp m)) /\
  (negb ((fl / 16) mod 2 =? 0) = has_alpha m) /\
  fl mod 2 = 0 /\ fl / 64 = 0.
Proof. exact flags_derivation. Qed.
Print Assumptions C14_flags_derivation.

Theorem C14_still_vs_animated_choice : forall m,
  is_animated m = true <->
  (1 < len (m_frames m) \/ exists f, In f (m_frames m) /\ 0 < o_dur (f_opts f)).
Proof. exact still_vs_animated_choice. Qed.
Print Assumptions C14_still_vs_animated_choice.

Theorem C14_simple_layout_iff : forall fx m,
  needs_vp8x fx m = false <->
  (is_animated m = false /\ m_icc m = None /\ m_exif m = None /\ m_xmp m = None /\
   (fx_alpha fx = true -> has_alpha_chunk m = false)).
Proof. exact needs_vp8x_iff. Qed.
Print Assumptions C14_simple_layout_iff.

(** Refutations of the full statement for the PINNED muxer (before bc01570/2c1f6ba);
    [pinned] and [mkfx _ false] are explicitly the old code and are not run by the
    correspondence. *)
Theorem C14_pinned_still_alpha_refuted : forall dfx, ~ roundtrip_statement pinned dfx.
Proof. exact pinned_still_alpha_refuted. Qed.
Print Assumptions C14_pinned_still_alpha_refuted.

Theorem C14_pinned_negative_offset_refuted : forall dfx, ~ roundtrip_statement (mkfx true false) dfx.
Proof. exact pinned_negative_offset_refuted. Qed.
Print Assumptions C14_pinned_negative_offset_refuted.

Theorem C14_pinned_big_offset_refuted : forall dfx, ~ roundtrip_statement (mkfx true false) dfx.
Proof. exact pinned_big_offset_refuted. Qed.
Print Assumptions C14_pinned_big_offset_refuted.

Theorem C14_pinned_still_offset_refuted : forall dfx, ~ roundtrip_statement (mkfx true false) dfx.
Proof. exact pinned_still_offset_refuted. Qed.
Print Assumptions C14_pinned_still_offset_refuted.

(** Refutation for the CURRENT muxer: the remaining known finding (still-canvas). *)
Theorem C14_current_still_canvas_refuted : ~ C14_full_statement.
Proof. exact (current_still_canvas_refuted true). Qed.
Print Assumptions C14_current_still_canvas_refuted.

(** The witnesses of the pinned defects are rejected with an error / round-trip in
    the current model (evaluated in the kernel). *)
Theorem C14_current_handles_the_pinned_witnesses :
  assemble repaired (run [AddFrame w_vp8 (opts 10 (-2) 0)]) = Err E_validate /\
  assemble repaired (run [AddFrame w_vp8 (opts 10 33554432 0)]) = Err E_validate /\
  assemble repaired (run [AddFrame w_vp8 (opts 10 16777216 0)]) = Err E_validate /\
  assemble repaired (run [AddFrame w_vp8 (opts 0 2 0); SetEXIF (Some [1])]) = Err E_validate /\
  roundtrip_holds repaired true [AddFrame w_alph None] = true /\
  roundtrip_holds repaired true [AddFrame w_alph None; SetEXIF (Some [1; 2; 3])] = true /\
  roundtrip_holds repaired true
    [AddFrame w_alph (opts 10 2 4); AddFrame w_vp8 (opts 20 0 0); SetLoopCount 3; SetXMP (Some [])] = true.
Proof. exact current_handles_the_pinned_witnesses. Qed.
Print Assumptions C14_current_handles_the_pinned_witnesses.

Theorem C14_limits_match_source :
  WebpGen.Consts.mux_maxDuration = maxDuration /\ WebpGen.Consts.mux_maxLoopCount = maxLoopCount /\
  WebpGen.Consts.container_MaxCanvasSize = MaxCanvasSize /\ WebpGen.Consts.container_MaxFrames = MaxFrames /\
  WebpGen.Consts.container_MaxPositionOff = MaxPositionOff /\
  WebpGen.Consts.mux_maxMetadataSize = maxMetadataSize /\ WebpGen.Consts.container_MaxImageArea = MaxImageArea /\
  WebpGen.Consts.mux_flagAnimation = 2 /\ WebpGen.Consts.mux_flagXMP = 4 /\ WebpGen.Consts.mux_flagEXIF = 8 /\
  WebpGen.Consts.mux_flagAlpha = 16 /\ WebpGen.Consts.mux_flagICCP = 32 /\
  WebpGen.Consts.container_VP8LMagicByte = VP8LMagicByte /\
  WebpGen.Consts.mux_BlendNone = 1 /\ WebpGen.Consts.mux_DisposeBackground = 1.
Proof. repeat split; reflexivity. Qed.
Print Assumptions C14_limits_match_source.
