(** C14 — muxing then demuxing returns exactly what was put in. *)
From Coq Require Import List ZArith.
From Webp Require Import Base.Res Base.Bytes Riff.RiffGrammar Riff.DemuxModel Riff.MuxModel Riff.MuxView.
From WebpGen Require Consts.
Import ListNotations.
Open Scope Z_scope.

Theorem C14_limits_match_source :
  WebpGen.Consts.mux_maxDuration = maxDuration /\ WebpGen.Consts.mux_maxLoopCount = maxLoopCount /\
  WebpGen.Consts.container_MaxCanvasSize = MaxCanvasSize /\ WebpGen.Consts.container_MaxFrames = MaxFrames /\
  WebpGen.Consts.mux_maxMetadataSize = maxMetadataSize /\ WebpGen.Consts.container_MaxImageArea = MaxImageArea.
Proof. repeat split; reflexivity. Qed.
Print Assumptions C14_limits_match_source.
