(** C13 — results do not depend on CPU-specific code paths or architecture.
    Only statements, each closed by [exact <lemma>] and followed by
    [Print Assumptions].

    Proof: (1) every constant the compiler must represent as int/uint fits 32
    bits (complete check of the list regenerated from the source); (2) the
    16-bit-lane algorithms of the SSE2/AVX2 routines equal the portable Go
    kernels on the stated ranges, and where a valid bitstream can leave the
    range the difference is exhibited ([_refuted]).
    Instrumentation only (harness, not theorems): the assembly text against the
    lane-16 models, portable vs dispatched kernels, the two builds' pipeline
    digests, and `go build` per GOOS/GOARCH. *)
From Coq Require Import List ZArith String.
From Webp Require Import Base.Res Arch.ArchIntWidth Arch.ArchIntWidthProofs Arch.ArchLane16 Arch.ArchLane16Proofs.
From WebpGen Require IntWidth.
Import ListNotations.
Open Scope Z_scope.

(** ** Part 1: int-width independence *)

(** Every constant expression of type int in the files a 32-bit target compiles
    is representable in a 32-bit int (what the compiler checks for GOARCH=386,
    arm, mips, wasm; derived independently from the typed syntax tree). *)
Theorem C13_int_constants_fit_32bit : forall file l line col v,
  In (file, l) IntWidth.int_constants -> In (line, col, v) l -> -2^31 <= v < 2^31.
Proof. exact int_constants_fit_32bit. Qed.
Print Assumptions C13_int_constants_fit_32bit.

Theorem C13_uint_constants_fit_32bit : forall file l line col v,
  In (file, l) IntWidth.uint_constants -> In (line, col, v) l -> 0 <= v < 2^32.
Proof. exact uint_constants_fit_32bit. Qed.
Print Assumptions C13_uint_constants_fit_32bit.

(** Same obligations in the form whose failure names the offending positions. *)
Theorem C13_no_int_constant_out_of_range : out_of_range fits_int32 IntWidth.int_constants = [].
Proof. exact no_int_constant_out_of_range. Qed.
Print Assumptions C13_no_int_constant_out_of_range.

Theorem C13_no_uint_constant_out_of_range : out_of_range fits_uint32 IntWidth.uint_constants = [].
Proof. exact no_uint_constant_out_of_range. Qed.
Print Assumptions C13_no_uint_constant_out_of_range.

Theorem C13_int_constant_list_is_complete :
  count_consts IntWidth.int_constants = IntWidth.int_constants_count /\
  count_consts IntWidth.uint_constants = IntWidth.uint_constants_count /\
  1000 <= IntWidth.int_constants_count /\ 10 <= IntWidth.uint_constants_count.
Proof. exact int_constant_list_is_complete. Qed.
Print Assumptions C13_int_constant_list_is_complete.

(** ** Part 2: lane-16 algorithms vs portable kernels *)

(** IDCT: equal whenever no lane feeding PMULHW / PSRAW wraps ... *)
Theorem C13_lane16_idct_eq_fits : forall coeffs pred c p,
  blk16 coeffs = Ok c -> blk16 pred = Ok p ->
  forallM int16 c -> forallM byte p -> idct_fits16 c ->
  lane16_idct coeffs pred = transform_one coeffs pred.
Proof. exact lane16_idct_eq_fits. Qed.
Print Assumptions C13_lane16_idct_eq_fits.

(** ... in particular on the whole coefficient box |c| <= 2212 ... *)
Theorem C13_lane16_idct_eq : forall coeffs pred,
  in_range coeffs -> Forall byte pred ->
  lane16_idct coeffs pred = transform_one coeffs pred.
Proof. exact lane16_idct_eq. Qed.
Print Assumptions C13_lane16_idct_eq.

(** ... which is the widest symmetric box ... *)
Theorem C13_idct_box_maximal :
  Forall (fun c => - (kIdctBox + 1) <= c <= kIdctBox + 1) idct_block_2213 /\
  lane16_idct idct_block_2213 (repeat 128 16) <> transform_one idct_block_2213 (repeat 128 16).
Proof. exact idct_box_maximal. Qed.
Print Assumptions C13_idct_box_maximal.

(** ... while a valid bitstream can deliver any int16(level * dq): the full
    statement "for every int16 coefficient block" is false. *)
Theorem C13_lane16_idct_differs_refuted : exists coeffs pred,
  List.length coeffs = 16%nat /\ Forall int16 coeffs /\ Forall byte pred /\
  lane16_idct coeffs pred <> transform_one coeffs pred.
Proof. exact lane16_idct_differs_refuted. Qed.
Print Assumptions C13_lane16_idct_differs_refuted.

(** Inverse WHT. *)
Theorem C13_lane16_wht_eq : forall coeffs,
  in_range_wht coeffs -> lane16_wht coeffs = transform_wht coeffs.
Proof. exact lane16_wht_eq. Qed.
Print Assumptions C13_lane16_wht_eq.

Theorem C13_lane16_wht_differs_refuted : exists coeffs,
  List.length coeffs = 16%nat /\ Forall (fun c => - (kWhtBox + 1) <= c <= kWhtBox + 1) coeffs /\
  lane16_wht coeffs = Ok [-4096; 0; 0; 0; 0; 0; 0; 0; 0; 0; 0; 0; 0; 0; 0; 0] /\
  transform_wht coeffs = Ok [4096; 0; 0; 0; 0; 0; 0; 0; 0; 0; 0; 0; 0; 0; 0; 0].
Proof. exact lane16_wht_differs_refuted. Qed.
Print Assumptions C13_lane16_wht_differs_refuted.

(** Forward WHT. *)
Theorem C13_lane16_fwht_eq : forall coeffs,
  in_range_fwht coeffs -> lane16_fwht coeffs = ftransform_wht coeffs.
Proof. exact lane16_fwht_eq. Qed.
Print Assumptions C13_lane16_fwht_eq.

Theorem C13_lane16_fwht_differs_refuted : exists coeffs,
  List.length coeffs = 16%nat /\ Forall (fun c => - (kFwhtBox + 1) <= c <= kFwhtBox + 1) coeffs /\
  lane16_fwht coeffs = Ok [-16384; 0; 0; 0; 0; 0; 0; 0; 0; 0; 0; 0; 0; 0; 0; 0] /\
  ftransform_wht coeffs = Ok [16384; 0; 0; 0; 0; 0; 0; 0; 0; 0; 0; 0; 0; 0; 0; 0].
Proof. exact lane16_fwht_differs_refuted. Qed.
Print Assumptions C13_lane16_fwht_differs_refuted.

(** TrueMotion predictor, green transforms, SSE, simple loop filter: byte
    inputs cannot wrap the lanes — equal on all inputs. *)
Theorem C13_lane16_tm_eq : forall top left tl, byte top -> byte left -> byte tl ->
  l_tm_sample top left tl = tm_sample top left tl.
Proof. exact lane16_tm_eq. Qed.
Print Assumptions C13_lane16_tm_eq.

Theorem C13_lane16_add_green_eq : forall a r g b, byte a -> byte r -> byte g -> byte b ->
  add_green_lanes a r g b = add_green_go (argb_of a r g b).
Proof. exact lane16_add_green_eq. Qed.
Print Assumptions C13_lane16_add_green_eq.

Theorem C13_lane16_sub_green_eq : forall a r g b, byte a -> byte r -> byte g -> byte b ->
  sub_green_lanes a r g b = sub_green_go (argb_of a r g b).
Proof. exact lane16_sub_green_eq. Qed.
Print Assumptions C13_lane16_sub_green_eq.

Theorem C13_lane16_sse_eq : forall a b, Forall byte a -> Forall byte b -> (List.length a <= 1024)%nat ->
  l_sse_list a b = sse_list a b.
Proof. exact lane16_sse_eq. Qed.
Print Assumptions C13_lane16_sse_eq.

Theorem C13_lane16_simple_filter_eq : forall p1 p0 q0 q1 thresh,
  byte p1 -> byte p0 -> byte q0 -> byte q1 -> 0 <= thresh <= 32767 ->
  simple_filter_lane p1 p0 q0 q1 thresh = simple_filter_go p1 p0 q0 q1 thresh.
Proof. exact lane16_simple_filter_eq. Qed.
Print Assumptions C13_lane16_simple_filter_eq.

(** Forward DCT: the 32-bit-lane algorithm (PMADDWD on saturating-packed
    operands, saturating final pack) equals the portable one on all byte input. *)
Theorem C13_lane32_fdct_eq : forall src ref, Forall byte src -> Forall byte ref ->
  lane32_fdct src ref = ftransform src ref.
Proof. exact lane32_fdct_eq. Qed.
Print Assumptions C13_lane32_fdct_eq.

(** Encoder-side reachability: every forward-DCT coefficient is within +-2040,
    so the forward WHT (fed with sixteen DCT DCs) stays inside its no-wrap range. *)
Theorem C13_lane16_fwht_eq_on_encoder_input : forall dcs,
  Forall (fun dc => exists src ref s r, blk16 src = Ok s /\ blk16 ref = Ok r /\ Forall byte src /\ Forall byte ref /\
                    dc = nth 0 (listM (fdct_core (map2M Z.sub s r))) 0) dcs ->
  lane16_fwht dcs = ftransform_wht dcs.
Proof. exact lane16_fwht_eq_on_encoder_input. Qed.
Print Assumptions C13_lane16_fwht_eq_on_encoder_input.

(** YUV -> RGB of the fancy upsampler: PMADDWD / PSRAD / saturating packs (with
    16525 >> 7 for the coefficient 33050 that does not fit a 16-bit lane) equal
    YUVToRGB for all byte triples. *)
Theorem C13_lane32_yuv_eq : forall y u v, byte y -> byte u -> byte v ->
  l_yuv_r y v = yuv_r y v /\ l_yuv_g y u v = yuv_g y u v /\ l_yuv_b y u = yuv_b y u.
Proof. exact lane32_yuv_eq. Qed.
Print Assumptions C13_lane32_yuv_eq.

(** Hadamard-domain distortion with the weights of the source (regenerated). *)
From Webp Require Import Arch.ArchLane16Tables.
From WebpGen Require Tables Consts.
Theorem C13_lane16_tdisto_eq : forall a b, Forall byte a -> Forall byte b ->
  l_tdisto WebpGen.Tables.dsp_kWeightY a b = tdisto WebpGen.Tables.dsp_kWeightY a b.
Proof. exact lane16_tdisto_eq_src. Qed.
Print Assumptions C13_lane16_tdisto_eq.

(** Tie to the source: the constants of transforms.go are the models' constants. *)
Theorem C13_idct_constants_match :
  WebpGen.Consts.dsp_c1 = kC1 /\ WebpGen.Consts.dsp_c2 = kC2 /\ WebpGen.Consts.dsp_BPS = 32.
Proof. exact idct_constants_match. Qed.
Print Assumptions C13_idct_constants_match.

Theorem C13_yuv_constants_match :
  WebpGen.Consts.dsp_kYScale = 19077 /\ WebpGen.Consts.dsp_kRCr = 26149 /\ WebpGen.Consts.dsp_kGCb = 6419 /\
  WebpGen.Consts.dsp_kGCr = 13320 /\ WebpGen.Consts.dsp_kBCb = 2 * 16525 /\
  WebpGen.Consts.dsp_kRBias = 14234 /\ WebpGen.Consts.dsp_kGBias = 8708 /\ WebpGen.Consts.dsp_kBBias = 17685.
Proof. exact yuv_constants_match. Qed.
Print Assumptions C13_yuv_constants_match.

(** AC quantisation (one coefficient): equal whenever Go's uint32 product does
    not wrap, in particular on everything the encoder can feed it. *)
Theorem C13_lane_quant_eq : forall x sharpen iq bias,
  -32767 <= x <= 32767 -> 0 <= sharpen -> Z.abs x + sharpen <= 32767 ->
  0 <= iq < 4294967296 -> 0 <= bias ->
  (Z.abs x + sharpen) * iq + bias < 4294967296 ->
  quant_lane x sharpen iq bias = quant_go x sharpen iq bias.
Proof. exact lane_quant_eq. Qed.
Print Assumptions C13_lane_quant_eq.

Theorem C13_lane_quant_eq_encoder : forall x sharpen iq bias,
  -4095 <= x <= 4095 -> 0 <= sharpen <= 255 -> 0 <= iq <= 131072 -> 0 <= bias <= 1048576 ->
  quant_lane x sharpen iq bias = quant_go x sharpen iq bias.
Proof. exact lane_quant_eq_encoder. Qed.
Print Assumptions C13_lane_quant_eq_encoder.

(** range_reachable: the coefficients a valid stream delivers to the decoder's
    IDCT, int16(level * dq) with |level| <= 2114 and dq in the AC table of the
    source, are not contained in [in_range]; on such a block the kernels differ. *)
Theorem C13_range_reachable_exceeds_in_range : exists coeffs pred,
  Forall (reachable_coeff WebpGen.Tables.lossy_KAcTable) coeffs /\ List.length coeffs = 16%nat /\
  Forall byte pred /\ ~ in_range coeffs /\
  lane16_idct coeffs pred <> transform_one coeffs pred.
Proof. exact range_reachable_exceeds_in_range. Qed.
Print Assumptions C13_range_reachable_exceeds_in_range.

(** ** Encoder-side ranges (proved, not argued) *)
From Webp Require Import Arch.ArchEncRange.

(** Per-position bounds of the forward DCT of byte residuals. *)
Theorem C13_fdct_core_pos_bounds : forall d, forallM (in_box 255) d -> forall2M in_box fdctF (fdct_core d).
Proof. exact fdct_core_pos_bounds. Qed.
Print Assumptions C13_fdct_core_pos_bounds.

(** Quantise + dequantise (QuantizeCoeffs, the assembly, or the trellis: any
    level between 0 and (v*iq + b) >> 17 with b < 2^17) moves a coefficient at
    most one step beyond |coefficient| + sharpening. *)
Theorem C13_dequant_upper : forall v q iq b level,
  0 < q -> iq = 131072 / q -> 0 <= b < 131072 -> 0 <= v ->
  0 <= level <= (v * iq + b) / 131072 -> 0 <= level * q <= v + q.
Proof. exact dequant_upper. Qed.
Print Assumptions C13_dequant_upper.

(** The quantiser steps, sharpening factors and biases of the source
    (regenerated) are within the slack the range theorems assume. *)
Theorem C13_enc_tables_within_slack : enc_tables_ok = true.
Proof. exact enc_tables_within_slack. Qed.
Print Assumptions C13_enc_tables_within_slack.

(** Every coefficient block the encoder reconstructs with ITransform - a
    dequantised version [c] of the forward DCT of byte residuals, per position
    |c_i| <= |f_i| + slack_i (DC slack 615: also covers the DC an intra-16x16
    block receives from the inverse WHT) - is inside the no-wrap region: the
    lane-16 IDCT equals the portable one. *)
Theorem C13_encoder_idct_in_range : forall src ref coeffs pred s r c,
  blk16 src = Ok s -> blk16 ref = Ok r -> Forall byte src -> Forall byte ref ->
  blk16 coeffs = Ok c -> Forall byte pred ->
  dequant_close (fdct_core (map2M Z.sub s r)) c ->
  lane16_idct coeffs pred = transform_one coeffs pred.
Proof. exact encoder_idct_in_range. Qed.
Print Assumptions C13_encoder_idct_in_range.

(** The encoder's inverse WHT: input = dequantised forward WHT of sixteen DCT
    DCs; no lane wraps, and every reconstructed DC is within +-2655. *)
Theorem C13_encoder_wht_in_range : forall dcs coeffs d c,
  blk16 dcs = Ok d -> Forall (in_box 2040) dcs -> blk16 coeffs = Ok c ->
  wht_close (fwht_core d) c ->
  lane16_wht coeffs = transform_wht coeffs /\ forallM (in_box 2655) (iwht_core c).
Proof. exact encoder_wht_in_range. Qed.
Print Assumptions C13_encoder_wht_in_range.

(** The Y2 quantiser (no trellis, no sharpening) meets [wht_close]. *)
Theorem C13_y2_quant_error : forall v q iq b e,
  8 <= q -> iq = 131072 / q -> 0 <= v <= 16320 ->
  (b = 49152 /\ q <= 314 /\ e = 237) \/ (b = 55296 /\ q <= 440 /\ e = 311) ->
  let level := (v * iq + b) / 131072 in
  - e <= level * q - v <= e /\ 0 <= level <= 2047.
Proof. exact y2_quant_error. Qed.
Print Assumptions C13_y2_quant_error.

(** ** Further kernels (wave 3) *)
From Webp Require Import Arch.ArchLane16More.

(** DequantCoeffs: PMULLW (AC) and the 32-bit IMUL + 16-bit store (DC) equal int16(level * q). *)
Theorem C13_lane_dequant_eq : forall x q, int16 x -> 0 <= q <= 32767 ->
  dequant_lane_ac x q = dequant_go x q /\ dequant_lane_dc x q = dequant_go x q.
Proof. exact lane_dequant_eq. Qed.
Print Assumptions C13_lane_dequant_eq.

(** Fancy upsampler: the packed u | v<<16 two-step interpolation equals the
    9-3-3-1 definition per channel on all byte inputs (interior and edge pixels). *)
Theorem C13_upsample_packed_eq : forall u0 v0 u1 v1 u2 v2 u3 v3,
  byte u0 -> byte v0 -> byte u1 -> byte v1 -> byte u2 -> byte v2 -> byte u3 -> byte v3 ->
  let p := interp_packed (pack_uv u0 v0) (pack_uv u1 v1) (pack_uv u2 v2) (pack_uv u3 v3) in
  lo8 p = interp_def u0 u1 u2 u3 /\ hi8 p = interp_def v0 v1 v2 v3.
Proof. exact upsample_packed_eq. Qed.
Print Assumptions C13_upsample_packed_eq.

Theorem C13_upsample_edge_packed_eq : forall u0 v0 u1 v1,
  byte u0 -> byte v0 -> byte u1 -> byte v1 ->
  let p := edge_packed (pack_uv u0 v0) (pack_uv u1 v1) in
  lo8 p = edge_def u0 u1 /\ hi8 p = edge_def v0 v1.
Proof. exact upsample_edge_packed_eq. Qed.
Print Assumptions C13_upsample_edge_packed_eq.

(** DC predictors: PSADBW halves + scalar left column = alternating accumulation. *)
Theorem C13_lane_dc16_eq : forall top left, List.length top = 16%nat -> List.length left = 16%nat ->
  dc16_lane top left = dc_go top left 5 16.
Proof. exact lane_dc16_eq. Qed.
Print Assumptions C13_lane_dc16_eq.

Theorem C13_lane_dc8_eq : forall top left, List.length top = 8%nat -> List.length left = 8%nat ->
  dc8_lane top left = dc_go top left 4 8.
Proof. exact lane_dc8_eq. Qed.
Print Assumptions C13_lane_dc8_eq.

(** SSE16x16 / 16x8 / 8x8: the lane SSE of any block partition (up to 1024
    samples) is the sum of the portable block SSEs. *)
Theorem C13_lane16_sse_blocks_eq : forall bs,
  Forall (fun ab => List.length (fst ab) = List.length (snd ab) /\ Forall byte (fst ab) /\ Forall byte (snd ab)) bs ->
  (List.length (List.concat (map fst bs)) <= 1024)%nat ->
  l_sse_list (List.concat (map fst bs)) (List.concat (map snd bs)) = sse_blocks bs.
Proof. exact lane16_sse_blocks_eq. Qed.
Print Assumptions C13_lane16_sse_blocks_eq.

(** TDisto16x16 = sum of the sixteen 4x4 distortions, lane = portable. *)
Theorem C13_lane16_tdisto16_eq : forall w blocks, Forall (fun x => 0 <= x <= 255) w ->
  Forall (fun ab => Forall byte (fst ab) /\ Forall byte (snd ab)) blocks ->
  l_tdisto16 w blocks = tdisto16 w blocks.
Proof. exact lane16_tdisto16_eq. Qed.
Print Assumptions C13_lane16_tdisto16_eq.

(** Row kernels: 8-lane loop + optional 4-lane step + scalar tail = per-pixel map
    (AVX2 version = two SSE2 versions = Go loop), for every row length. *)
Theorem C13_row_8_4_1_eq : forall (A B : Type) (f : A -> B) (l : list A), row_8_4_1 f f f l = map f l.
Proof. exact @row_8_4_1_eq. Qed.
Print Assumptions C13_row_8_4_1_eq.

(** Non-zero scan of QuantizeCoeffs: PMAXSW tree = running maximum. *)
Theorem C13_lane_nz_scan_eq : forall zz out, List.length zz = 16%nat -> List.length out = 16%nat ->
  nz_lane zz out = nz_go zz out.
Proof. exact lane_nz_scan_eq. Qed.
Print Assumptions C13_lane_nz_scan_eq.

(** ** Wave 6 *)
From Webp Require Import Arch.ArchInt32 Arch.ArchLaneCalls.
From WebpGen Require LaneCalls.

(** 32-bit arithmetic: the arm64 routine iTransformOneNEON (32-bit lanes) and
    the portable Go IDCT on every target whose [int] is 32 bits wide
    (386 / arm / mips: [(a * 35468) >> 16] wraps) equal the 64-bit portable IDCT on
    every block with |c| <= 15735 ... *)
Theorem C13_idct32_eq : forall coeffs pred, in_range32 coeffs -> Forall byte pred ->
  idct32 coeffs pred = transform_one coeffs pred.
Proof. exact idct32_eq. Qed.
Print Assumptions C13_idct32_eq.

(** ... the box is maximal ... *)
Theorem C13_int32_box_maximal :
  Forall (fun c => - (kInt32Box + 1) <= c <= kInt32Box + 1) int32_block_15736 /\
  idct32 int32_block_15736 (repeat 128 16) <> transform_one int32_block_15736 (repeat 128 16).
Proof. exact int32_box_maximal. Qed.
Print Assumptions C13_int32_box_maximal.

(** ... and beyond it the result depends on the width of int: two coefficients
    32767 = int16(1057 * 31), deliverable by a valid stream, give different
    samples in 32-bit and in 64-bit arithmetic. *)
Theorem C13_idct_int_width_differs_refuted :
  Forall int16 int32_block_sparse /\
  idct32 int32_block_sparse (repeat 128 16) = Ok [255; 0; 255; 0; 255; 255; 0; 0; 255; 255; 0; 0; 0; 0; 255; 255] /\
  transform_one int32_block_sparse (repeat 128 16) = Ok [255; 255; 0; 0; 255; 255; 0; 0; 255; 255; 0; 0; 0; 0; 255; 255].
Proof. exact idct_int_width_differs_refuted. Qed.
Print Assumptions C13_idct_int_width_differs_refuted.

(** Checked facts about the source (regenerated every run). *)

(** Every call of a lane kernel in the encoder takes its coefficient input along
    the chain the range theorems assume (bytes -> FDCT -> quantise -> dequantise
    (-> WHT) -> IDCT); an unclassifiable call site fails this obligation. *)
Theorem C13_lane_events_follow_chain : forallb event_ok LaneCalls.lane_events = true.
Proof. exact lane_events_follow_chain. Qed.
Print Assumptions C13_lane_events_follow_chain.

Theorem C13_lane_events_cover_all_kernels :
  forallb (fun k => existsb (fun e => String.eqb (snd (fst (fst e))) k) LaneCalls.lane_events)
          ["FTransformDirect"; "FTransformWHT"; "QuantizeCoeffs"; "TrellisQuantizeBlock";
           "DequantCoeffs"; "TransformWHT"; "ITransformDirect"]%string = true.
Proof. exact lane_events_cover_all_kernels. Qed.
Print Assumptions C13_lane_events_cover_all_kernels.

Theorem C13_lane_buffer_readers_reviewed : subset LaneCalls.lane_buffer_readers reviewed_readers = true.
Proof. exact lane_buffer_readers_reviewed. Qed.
Print Assumptions C13_lane_buffer_readers_reviewed.

(** Every assembly routine of the module (amd64 and arm64) has a lane model with a
    theorem above or an explicit "partial" entry; no stale entries. *)
Theorem C13_asm_inventory_covered : asm_inventory_ok = true.
Proof. exact asm_inventory_covered. Qed.
Print Assumptions C13_asm_inventory_covered.

(** ** Wave 7: the model derived from the assembly text *)
From Webp Require Import Arch.ArchAsm Arch.ArchAsmPinned.
From WebpGen Require AsmAmd64.

(** Interpreting the instruction lists - regenerated from the .s files on every
    run - with the SSE2/VEX semantics of Arch/ArchAsm.v, on ANY memory, returns
    exactly the lane models (run_real / run_st_real: the interpreter instantiated
    with the real lane operations).  The range theorems and the lane16-wrap
    refutations above are thereby statements about the assembly as written. *)
Theorem C13_asm_sse4x4_eq_model : forall m, (forall b o, 0 <= m b o <= 255) ->
  run_real 100 AsmAmd64.asm_sse4x4SSE2 0 (init_state m) = Some (l_sse_list (block4 m "pix") (block4 m "ref")).
Proof. exact asm_sse4x4_eq_model_real. Qed.
Print Assumptions C13_asm_sse4x4_eq_model.

(** sse16x16SSE2: the counted loop is executed by the interpreter. *)
Theorem C13_asm_sse16x16_eq_model : forall m, (forall b o, 0 <= m b o <= 255) ->
  run_real 600 AsmAmd64.asm_sse16x16SSE2 0 (init_state m) = Some (l_sse_list (block16 m "pix") (block16 m "ref")).
Proof. exact asm_sse16x16_eq_model_real. Qed.
Print Assumptions C13_asm_sse16x16_eq_model.

(** transformWHTSSE2 = lane16_wht (no hypothesis on the coefficients: equality of
    the assembly with the 16-bit-lane model, wraps included). *)
Theorem C13_asm_iwht_is_lane16_wht : forall m mw,
  option_map (fun s => out_words s (map (Z.mul 16) idx16))
             (run_st_real 200 AsmAmd64.asm_transformWHTSSE2 0 (init_state_w m mw wht_args))
  = res_list (lane16_wht (map (mw "in") idx16)).
Proof. exact asm_iwht_is_lane16_wht. Qed.
Print Assumptions C13_asm_iwht_is_lane16_wht.

Theorem C13_asm_fwht_is_lane16_fwht : forall m mw,
  option_map (fun s => out_words s idx16)
             (run_st_real 200 AsmAmd64.asm_fTransformWHTSSE2 0 (init_state_w m mw wht_args))
  = res_list (lane16_fwht (map (mw "in") idx16)).
Proof. exact asm_fwht_is_lane16_fwht. Qed.
Print Assumptions C13_asm_fwht_is_lane16_fwht.

(** iTransformOneSSE2 and its VEX-encoded twin iTransformOneAVX2 = lane16_idct. *)
Theorem C13_asm_idct_is_lane16_idct : forall m mw,
  option_map (fun s => map (stored (bst s) "dst") dst_offsets)
             (run_st_real 300 AsmAmd64.asm_iTransformOneSSE2 0 (init_state_w m mw idct_args))
  = res_list (lane16_idct (map (mw "in") idx16) (map (m "ref") dst_offsets)).
Proof. exact asm_idct_is_lane16_idct. Qed.
Print Assumptions C13_asm_idct_is_lane16_idct.

Theorem C13_asm_idct_avx2_is_lane16_idct : forall m mw,
  option_map (fun s => map (stored (bst s) "dst") dst_offsets)
             (run_st_real 300 AsmAmd64.asm_iTransformOneAVX2 0 (init_state_w m mw idct_args))
  = res_list (lane16_idct (map (mw "in") idx16) (map (m "ref") dst_offsets)).
Proof. exact asm_idct_avx2_is_lane16_idct. Qed.
Print Assumptions C13_asm_idct_avx2_is_lane16_idct.

(** Every other routine body (amd64 and arm64) and the DATA tables are pinned. *)
Theorem C13_asm_bodies_pinned :
  AsmAmd64.asm_digests = pinned_digests /\ AsmAmd64.asm_data_digest = pinned_data_digest.
Proof. exact asm_bodies_pinned. Qed.
Print Assumptions C13_asm_bodies_pinned.

(** Quantise / dequantise use the same matrix of the same segment. *)
Theorem C13_lane_segments_consistent :
  forallb (seg_fact_ok LaneCalls.lane_seg_facts) LaneCalls.lane_seg_facts = true /\
  existsb (fun f => String.eqb (snd (fst f)) "sqroot") LaneCalls.lane_seg_facts = true /\
  existsb (fun f => String.eqb (snd f) "encodeFrame|seg:=&enc.dqm[info.Segment]") LaneCalls.lane_seg_facts = true.
Proof. exact lane_segments_consistent. Qed.
Print Assumptions C13_lane_segments_consistent.
