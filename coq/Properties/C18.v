(** C18 — animations keep their transparency in lossy and mixed-codec modes. *)
From Coq Require Import List ZArith.
From Webp Require Import Anim.Blend Anim.Canvas Anim.AnimDec Anim.AnimEncModel Anim.AnimEncSpec
  Anim.AnimEncWitness.
Import ListNotations.
Open Scope Z_scope.

(** False of the code as pinned: the lossy frame encoder of the animation path
    returns the colour bitstream without its alpha data. *)
Theorem C18_anim_alpha_preserved_refuted : ~ anim_alpha_preserved_statement pinned.
Proof. exact anim_alpha_preserved_refuted. Qed.
Print Assumptions C18_anim_alpha_preserved_refuted.

Theorem C18_lossy_frame_carries_alph_refuted :
  exists r : mrec, m_lossy r = true /\ wf_img (m_img r) /\
    map pa (ipix (decoded id_img id_img pinned false r)) <> map pa (ipix (m_img r)).
Proof. exact lossy_frame_carries_alph_refuted. Qed.
Print Assumptions C18_lossy_frame_carries_alph_refuted.
