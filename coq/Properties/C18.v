(** C18 — animations keep their transparency in lossy and mixed-codec modes. *)
From Coq Require Import List ZArith.
From Webp Require Import Anim.Blend Anim.Canvas Anim.AnimDec Anim.AnimEncModel Anim.AnimEncSpec
  Anim.AnimEncLemmas Anim.AnimEncProofs Anim.AnimEncMain Anim.AnimEncWitness Anim.AnimEncCodec.
Import ListNotations.
Open Scope Z_scope.

(** For Lossless in {false,true} x AllowMixed in {false,true}, any Quality 0..100,
    any Kmin/Kmax, any frames (binary or graded alpha), every outcome of the size
    comparisons (which candidate, which codec in mixed mode): with a VP8L codec that
    is exact up to colour under alpha 0 and a VP8+ALPH codec that is exact in size and
    alpha, the alpha planes of what is played are the alpha planes of what was added —
    picture by picture, with the same display times (the C08 relation on the alpha
    channel).  Model of the code under test: [repaired]. *)
Theorem C18_anim_alpha_preserved :
  forall (rt_ll rt_ly : img -> img) (W H : Z) (opts : eopts) (frames : list (img * Z))
         (oracle : nat -> orc) (has_meta simple : bool) (st0 : est) (out : output),
    codec_lossless rt_ll -> codec_alpha_exact rt_ly ->
    wf_canvas_dims W H -> alpha_opts opts -> frames <> [] -> Forall wf_input frames ->
    new_encoder W H opts = Some st0 ->
    close has_meta simple (run_frames repaired oracle st0 frames) = Some out ->
    same_show_by alpha_only W H (eo_loop opts) out (playback rt_ll rt_ly repaired out)
                 (inputs_of W H frames).
Proof. exact anim_alpha_preserved. Qed.
Print Assumptions C18_anim_alpha_preserved.

(** The same with failing AddFrame calls (frame encoder errors at chosen calls, muxer frame
    limit): the alpha planes played are those of the calls that returned nil. *)
Theorem C18_anim_error_alpha :
  forall (rt_ll rt_ly : img -> img) (W H : Z) (opts : eopts) (frames : list (img * Z))
         (oracle : nat -> orc) (fails : nat -> efail) (maxf : Z) (has_meta simple : bool)
         (st0 stf : est) (acc : list (img * Z)) (out : output),
    codec_lossless rt_ll -> codec_alpha_exact rt_ly ->
    wf_canvas_dims W H -> alpha_opts opts -> Forall wf_input frames ->
    new_encoder W H opts = Some st0 ->
    run_e repaired true maxf oracle fails st0 frames = (stf, acc) ->
    close has_meta simple stf = Some out ->
    same_show_by alpha_only W H (eo_loop opts) out (playback rt_ll rt_ly repaired out)
                 (inputs_of W H acc).
Proof. exact anim_error_alpha. Qed.
Print Assumptions C18_anim_error_alpha.

(** ... and with pre-encoded frames mixed in (see C08_anim_mixed_roundtrip). *)
Theorem C18_anim_mixed_alpha :
  forall (rt_ll rt_ly : img -> img) (W H : Z) (opts : eopts) (ops : list op)
         (oracle : nat -> orc) (fails : nat -> efail) (maxf : Z) (has_meta simple : bool)
         (st0 stf : est) (acc : list op) (out : output),
    codec_lossless rt_ll -> codec_alpha_exact rt_ly ->
    wf_canvas_dims W H -> alpha_opts opts -> Forall (AnimEncSpec.wf_op W H) ops ->
    new_encoder W H opts = Some st0 ->
    run_ops repaired maxf oracle fails st0 ops = (stf, acc) ->
    lone_small_raw_ok W H has_meta acc ->
    close has_meta simple stf = Some out ->
    same_show_by alpha_only W H (eo_loop opts) out (playback rt_ll rt_ly repaired out)
                 (ref_show W H (blank W H, None) acc).
Proof. exact anim_mixed_alpha. Qed.
Print Assumptions C18_anim_mixed_alpha.

(** blending never changes alpha: the alpha of a blend depends on the alphas only *)
Theorem C18_blending_alpha_depends_on_alpha_only : forall s s' d d',
  alpha_only s = alpha_only s' -> alpha_only d = alpha_only d' ->
  alpha_only (blend_spec s d) = alpha_only (blend_spec s' d').
Proof. exact alpha_blend. Qed.
Print Assumptions C18_blending_alpha_depends_on_alpha_only.

(** pixelsAreSimilar requires equal alpha *)
Theorem C18_similar_pixels_have_equal_alpha : forall p t md,
  pixels_similar p t md = true -> pa p = pa t.
Proof. exact similar_pixels_have_equal_alpha. Qed.
Print Assumptions C18_similar_pixels_have_equal_alpha.

(** The hypotheses are satisfiable: the identity codec, and the session that
    failed on the pinned code plays back with the source alpha on the repaired model. *)
Theorem C18_example_codec : codec_lossless id_img /\ codec_alpha_exact id_img.
Proof. exact (conj id_codec_lossless id_codec_alpha_exact). Qed.
Print Assumptions C18_example_codec.

(** False of the code as pinned ([pinned]): the lossy frame encoder of the animation
    path returned the colour bitstream without its alpha data. *)
Theorem C18_anim_alpha_preserved_refuted : ~ anim_alpha_preserved_statement pinned.
Proof. exact anim_alpha_preserved_refuted. Qed.
Print Assumptions C18_anim_alpha_preserved_refuted.

Theorem C18_lossy_frame_carries_alph_refuted :
  exists r : mrec, m_lossy r = true /\ wf_img (m_img r) /\
    map pa (ipix (decoded id_img id_img pinned false r)) <> map pa (ipix (m_img r)).
Proof. exact lossy_frame_carries_alph_refuted. Qed.
Print Assumptions C18_lossy_frame_carries_alph_refuted.

(** On the repaired wiring a lossy frame keeps its alpha plane. *)
Theorem C18_lossy_frame_carries_alph : forall (rt_ll rt_ly : img -> img) via r,
  codec_alpha_exact rt_ly -> m_lossy r = true -> wf_img (m_img r) ->
  map pa (ipix (decoded rt_ll rt_ly repaired via r)) = map pa (ipix (m_img r)).
Proof. exact lossy_frame_carries_alph. Qed.
Print Assumptions C18_lossy_frame_carries_alph.

(** Whichever codec mixed mode picks for a frame, the decoded frame has the alpha
    of the picture that was encoded. *)
Theorem C18_mixed_never_drops_alpha : forall (rt_ll rt_ly : img -> img) via r,
  codec_lossless rt_ll -> codec_alpha_exact rt_ly -> wf_img (m_img r) ->
  map pa (ipix (decoded rt_ll rt_ly repaired via r)) = map pa (ipix (m_img r)).
Proof. exact mixed_never_drops_alpha. Qed.
Print Assumptions C18_mixed_never_drops_alpha.

(** * On the codec models (wave 8)

    The two codec hypotheses discharged: the VP8L frame codec is decode-after-emit of
    Vp8l/Vp8lRoundtrip.v for any valid encoder choices (lossless_roundtrip), the lossy
    frame codec is any colour decode of the right size with the alpha plane decoded from the
    ALPH chunk the encoder writes, for any filter and any valid plan of the lossless alpha
    coder (Conform/ConformAlpha.alpha_lossless_chunk_exact, the chunk-level fact behind
    ConformEndToEndLossy.lossy_alpha_file_conformant). *)
Theorem C18_codec_lossless_model : forall o choose,
  ll_choices_valid o choose -> codec_lossless (rt_ll_model o choose).
Proof. exact codec_lossless_model. Qed.
Print Assumptions C18_codec_lossless_model.

Theorem C18_codec_alpha_exact_model : forall colour achoose,
  colour_ok colour -> alpha_choices_valid achoose -> codec_alpha_exact (rt_ly_model colour achoose).
Proof. exact codec_alpha_exact_model. Qed.
Print Assumptions C18_codec_alpha_exact_model.

Theorem C18_anim_alpha_preserved_on_models :
  forall o choose colour achoose,
    ll_choices_valid o choose -> colour_ok colour -> alpha_choices_valid achoose ->
  forall (W H : Z) (opts : eopts) (frames : list (img * Z))
         (oracle : nat -> orc) (has_meta simple : bool) (st0 : est) (out : output),
    wf_canvas_dims W H -> alpha_opts opts -> frames <> [] -> Forall wf_input frames ->
    new_encoder W H opts = Some st0 ->
    close has_meta simple (run_frames repaired oracle st0 frames) = Some out ->
    same_show_by alpha_only W H (eo_loop opts) out
      (playback (rt_ll_model o choose) (rt_ly_model colour achoose) repaired out) (inputs_of W H frames).
Proof. exact anim_alpha_preserved_on_models. Qed.
Print Assumptions C18_anim_alpha_preserved_on_models.

Theorem C18_anim_mixed_alpha_on_models :
  forall o choose colour achoose,
    ll_choices_valid o choose -> colour_ok colour -> alpha_choices_valid achoose ->
  forall (W H : Z) (opts : eopts) (ops : list op)
         (oracle : nat -> orc) (fails : nat -> efail) (maxf : Z) (has_meta simple : bool)
         (st0 stf : est) (acc : list op) (out : output),
    wf_canvas_dims W H -> alpha_opts opts -> Forall (AnimEncSpec.wf_op W H) ops ->
    new_encoder W H opts = Some st0 ->
    run_ops repaired maxf oracle fails st0 ops = (stf, acc) ->
    lone_small_raw_ok W H has_meta acc ->
    close has_meta simple stf = Some out ->
    same_show_by alpha_only W H (eo_loop opts) out
      (playback (rt_ll_model o choose) (rt_ly_model colour achoose) repaired out)
      (ref_show W H (blank W H, None) acc).
Proof. exact anim_mixed_alpha_on_models. Qed.
Print Assumptions C18_anim_mixed_alpha_on_models.
