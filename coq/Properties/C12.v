(** C12 — Results do not depend on GOMAXPROCS.
    Only statements, each closed by [exact <lemma>] and followed by [Print Assumptions]. *)
From Coq Require Import String List ZArith Permutation.
From Webp Require Import Conc.ConcPartition Conc.ConcPartitionProofs.
From WebpGen Require Sites Consts.
Import ListNotations.
Open Scope Z_scope.

(** [exact_partition rs lo hi] (ConcPartitionProofs): the ranges [rs] lie within
    [lo,hi), cover it, and are pairwise disjoint.  The following hold for EVERY worker
    count n >= 1 (what GOMAXPROCS returned) and EVERY size. *)

(** lossy importImage: Y rows (total = padH) and UV row pairs (total = padH/2). *)
Theorem C12_partition_exact_import : forall n total, 1 <= n -> 0 <= total ->
  exact_partition (ranges_prop n total) 0 total.
Proof. exact partition_exact_prop. Qed.
Print Assumptions C12_partition_exact_import.

(** lossless ResidualImage / ColorSpaceTransform (tile rows), histogramRemap,
    parallelComputeHistogramCost (histograms): ceil-sized clipped chunks, possibly
    empty or inverted ranges at the end. *)
Theorem C12_partition_exact_ceil_chunks : forall n total, 1 <= n -> 1 <= total ->
  exact_partition (ranges_ceil n total) 0 total.
Proof. exact partition_exact_ceil. Qed.
Print Assumptions C12_partition_exact_ceil_chunks.

Theorem C12_partition_exact_inv_cross_color : forall n ystart yend, 1 <= n -> ystart < yend ->
  exact_partition (ranges_inv_cross_color n ystart yend) ystart yend.
Proof. exact partition_exact_inv_cross_color. Qed.
Print Assumptions C12_partition_exact_inv_cross_color.

Theorem C12_partition_exact_argb_to_nrgba : forall n height, 1 <= n -> 0 <= height ->
  exact_partition (ranges_argb_to_nrgba n height) 0 height.
Proof. exact partition_exact_argb_to_nrgba. Qed.
Print Assumptions C12_partition_exact_argb_to_nrgba.

Theorem C12_partition_exact_hashchain : forall n size, 1 <= n -> 2 <= size ->
  exact_partition (ranges_hashchain n size) 1 (size - 1).
Proof. exact partition_exact_hashchain. Qed.
Print Assumptions C12_partition_exact_hashchain.

Theorem C12_partition_exact_compute_alphas : forall n mbW mbH, 1 <= n -> 1 <= mbW -> 1 <= mbH ->
  exact_partition (ranges_compute_alphas n mbW mbH) 0 mbH.
Proof. exact partition_exact_compute_alphas. Qed.
Print Assumptions C12_partition_exact_compute_alphas.

Theorem C12_workers_encode_parallel_bounds : forall n mbH, 1 <= mbH ->
  1 <= workers_encode_parallel n mbH <= 6 /\ workers_encode_parallel n mbH <= mbH.
Proof. exact workers_encode_parallel_bounds. Qed.
Print Assumptions C12_workers_encode_parallel_bounds.

(** A fork–join over an exact partition, one goroutine per range, under ANY
    interleaving of the workers' steps ([Shuffle]), computes the serial loop's result:
    sites whose per-item function only reads shared inputs ... *)
Theorem C12_map_site_independent : forall (A : Type) (f : Z -> A) rs total (init : list A) ops,
  exact_partition rs 0 total -> length init = Z.to_nat total ->
  Shuffle (map indices rs) ops ->
  run_writes f ops init = map f (zrange total).
Proof. exact map_site_independent. Qed.
Print Assumptions C12_map_site_independent.

(** ... sites whose items transform their own cell in place (each exactly once) ... *)
Theorem C12_inplace_site_independent : forall (A : Type) (g : Z -> A -> A) (d : A) rs total st ops,
  exact_partition rs 0 total -> length st = Z.to_nat total ->
  Shuffle (map indices rs) ops ->
  run_inplace g d ops st = map (fun i => g i (nth (Z.to_nat i) st d)) (zrange total).
Proof. exact inplace_site_independent. Qed.
Print Assumptions C12_inplace_site_independent.

(** ... and the integer accumulation of computeAlphas (workers add their local sums
    in any completion order). *)
Theorem C12_sum_site_independent : forall (h : Z -> Z) rs total order,
  exact_partition rs 0 total -> Permutation order rs ->
  sum_list (map (fun r => sum_list (map h (indices r))) order) = sum_list (map h (zrange total)).
Proof. exact sum_site_independent. Qed.
Print Assumptions C12_sum_site_independent.

(** Which algorithm runs never depends on the CPU count (after the fixes of
    lossy EncodeFrame.useParallel and lossless hashchain.Fill). *)
Theorem C12_algorithm_choice_independent : algorithm_choice_independent.
Proof. exact algorithm_choice_independent_holds. Qed.
Print Assumptions C12_algorithm_choice_independent.

Theorem C12_algorithm_choice_is_by_size_and_method : forall n,
  (forall size lowEffort, hashchain_uses_parallel n size lowEffort = hashchain_uses_parallel_fixed size lowEffort) /\
  (forall mbH method doSearch, encodeframe_uses_parallel n mbH method doSearch = encodeframe_uses_parallel_fixed mbH method doSearch).
Proof. exact algorithm_choice_is_by_size_and_method. Qed.
Print Assumptions C12_algorithm_choice_is_by_size_and_method.

(** computeAlphas: the per-worker body and the serial body (worker count 1) write the
    same [alphas] and return the same uvAlphaSum/total, for EVERY exact partition of the
    macroblock rows, every interleaving of the workers' writes and every completion
    order of their atomic adds; [luma], [uv] (the per-macroblock kernels) are arbitrary. *)
From Webp Require Conc.ConcAnalysis Conc.ConcUVScratch.
From WebpGen Require Analysis.
Module An := Conc.ConcAnalysis.
Theorem C12_analysis_worker_eq_serial :
  forall (luma uv : Z -> Z -> Z) (mbW mbH : Z), 1 <= mbW -> 1 <= mbH ->
  forall rs alphas0 inter order,
  exact_partition rs 0 mbH ->
  length alphas0 = Z.to_nat (mbH * mbW) ->
  Shuffle (map (An.mbs_of_rows luma uv mbW) rs) inter ->
  Permutation order rs ->
  An.parallel luma uv mbW mbH alphas0 inter order = An.serial luma uv mbW mbH alphas0 /\
  fst (An.serial luma uv mbW mbH alphas0) = map (An.alpha_at luma uv mbW) (zrange (mbH * mbW)).
Proof. exact An.analysis_worker_eq_serial. Qed.
Print Assumptions C12_analysis_worker_eq_serial.

(** ... in particular for the code's own partition and every worker count n >= 1. *)
Theorem C12_analysis_worker_eq_serial_all_n :
  forall (luma uv : Z -> Z -> Z) (mbW mbH : Z), 1 <= mbW -> 1 <= mbH ->
  forall n alphas0 inter order, 1 <= n ->
  length alphas0 = Z.to_nat (mbH * mbW) ->
  Shuffle (map (An.mbs_of_rows luma uv mbW) (ranges_compute_alphas n mbW mbH)) inter ->
  Permutation order (ranges_compute_alphas n mbW mbH) ->
  An.parallel luma uv mbW mbH alphas0 inter order = An.serial luma uv mbW mbH alphas0.
Proof. exact An.analysis_worker_eq_serial_all_n. Qed.
Print Assumptions C12_analysis_worker_eq_serial_all_n.

(** Source tie for the two loop bodies (regenerated, relative): the worker loop body and the
    serial loop body are the same code up to the names of locals, the wrapper called and the
    accumulator; each serial / worker wrapper pair returns the same kernel on the same
    leading arguments and the worker passes only scratch of its own parameter. *)
Theorem C12_analysis_bodies_match :
  WebpGen.Analysis.worker_body = WebpGen.Analysis.serial_body.
Proof. reflexivity. Qed.
Print Assumptions C12_analysis_bodies_match.

Theorem C12_analysis_wrappers_same_kernel :
  An.wrappers_ok WebpGen.Analysis.wrappers = true /\ WebpGen.Analysis.wrappers <> [].
Proof. split; [vm_compute; reflexivity | discriminate]. Qed.
Print Assumptions C12_analysis_wrappers_same_kernel.

(** importImage UV workers: whatever a pooled importUVWorker (possibly from a wider image)
    held, every U / V sample of a row pair is computed from scratch cells written in the
    same call.  The index facts of dsp.AccumulateRGBA and dsp.ConvertRGBA32ToUV are
    REGENERATED from the source (Gen/UVScratch.v): the theorem is instantiated with them
    and their admissibility check is discharged by computation. *)
From WebpGen Require UVScratch.
Module UV := Conc.ConcUVScratch.
Module GU := WebpGen.UVScratch.
Theorem C12_uv_worker_scratch_overwritten :
  forall (w mbW L : nat) (hasAlpha : bool) (pooledRow0 pooledRow1 pooledPlanar pooledTmp : UV.arr) (i : nat),
  (1 <= w)%nat -> (w <= 16 * mbW)%nat -> (16 * mbW <= L)%nat -> (i < (16 * mbW + 1) / 2)%nat ->
  UV.uv_output_fresh_gen w (16 * mbW) L hasAlpha pooledRow0 pooledRow1 pooledPlanar pooledTmp
      GU.acc_j_step GU.acc_reads GU.acc_dst_step GU.acc_dst_writes GU.conv_mult GU.conv_reads i = true.
Proof.
  intros. apply UV.uv_worker_scratch_overwritten_gen; try assumption. vm_compute. reflexivity.
Qed.
Print Assumptions C12_uv_worker_scratch_overwritten.

(** Source tie for the rest of the UV model (regenerated): the loop bounds of the two
    kernels, the definition of uvWidth, the statements of the UV goroutine before the
    row-pair loop (pooled worker, 0xff fill of planarA without alpha) and the row-pair loop
    body (row fill, edge replication, copies, call arguments) are the texts the model
    transcribes. *)
Theorem C12_uv_loop_text_matches_model :
  GU.acc_loop_bound = "i < (width >> 1)"%string /\ GU.conv_loop_bound = "i < width"%string /\
  GU.uv_width_def = "(padW + 1) >> 1"%string /\
  GU.uv_goroutine_prelude = UV.modelled_goroutine_prelude /\
  GU.uv_pair_loop_body = UV.modelled_pair_loop_body.
Proof. repeat split; reflexivity. Qed.
Print Assumptions C12_uv_loop_text_matches_model.

(** Regenerated: in both analysis kernels the first access, in program order, to every
    scratch parameter (through loops, branches, switch alternatives and package-local
    callees; dsp.FTransformDirect's third argument is its output) is a store — supports
    the assumption that their results do not depend on what the scratch held. *)
Theorem C12_analysis_kernels_write_scratch_first :
  forallb (fun kpa => String.eqb (snd kpa) "write") WebpGen.Analysis.kernel_scratch_first_access = true /\
  WebpGen.Analysis.kernel_scratch_first_access <> [].
Proof. split; [reflexivity | discriminate]. Qed.
Print Assumptions C12_analysis_kernels_write_scratch_first.

(** Regenerated (Gen/ScratchRegion.v, symbolic evaluation of the kernel bodies): in both
    analysis kernels every scratch cell that is read is a cell the same call stores, for
    every scratch parameter; distinct cells are distinct buffer elements (column < BPS).
    The switch of generateI16Prediction is taken as a set of alternatives; its clauses
    0 and 1 are exactly the range of the mode loop (maxIntra16Mode = 2). *)
From Webp Require Conc.ConcScratchRegion.
From WebpGen Require ScratchRegion.
Module SR := Conc.ConcScratchRegion.
Module GS := WebpGen.ScratchRegion.
Theorem C12_analysis_kernels_scratch_covered :
  forall k p w r, In (k, p, w, r) GS.kernel_regions ->
  (forall c, In c r -> In c w) /\
  (forall c1 c2, In c1 (w ++ r) -> In c2 (w ++ r) -> SR.index_of GS.bps c1 = SR.index_of GS.bps c2 -> c1 = c2) /\
  r <> [].
Proof. intros k p w r H. apply (SR.regions_covered_spec GS.bps GS.kernel_regions k p w r); [vm_compute; reflexivity|exact H]. Qed.
Print Assumptions C12_analysis_kernels_scratch_covered.

Theorem C12_analysis_kernels_regions_listed :
  GS.kernel_regions <> [] /\
  GS.region_switches = ["generateI16Prediction|pred|mode|0,1"]%string /\ GS.max_intra16_mode = 2%nat /\
  GS.bps = Z.to_nat WebpGen.Consts.dsp_BPS.
Proof. repeat split; try reflexivity. discriminate. Qed.
Print Assumptions C12_analysis_kernels_regions_listed.

(** Spawn arithmetic of every go statement, EVALUATED (Gen/PartShapes.v: the statements on the
    path to each go statement are evaluated symbolically by the translator — assignments
    substituted, `if c { x = e }` as a conditional, min / max, helper functions inlined — into
    three expressions per site: number of spawn-loop iterations, start and end of worker #w's
    range; ConcPartExpr.v gives them a semantics).  Nothing about how the code is written is
    compared: variable names, helpers, `if e > T { e = T }` versus min, the spelling of a ceiling
    division do not matter.
    (1) every go statement is a spawn loop with ranges, a set of queue workers, or a single
        goroutine, and its expressions could be formed;
    (2) BOUNDED, for every site: for all values of the free variables from [grid_for] and all n
        in [sweep_ns] the ranges tile, exactly once, the interval that ONE worker (n = 1) covers;
    (3) UNBOUNDED, for every site the certifier accepts (clipped chunks whose size is a ceiling
        of the length over the worker count, floor chunks whose last worker takes the remainder,
        proportional bounds — recognised by an affine decomposition in #w, not by syntax): exact
        cover for ALL values of the free variables and ALL n with at least one worker and a
        non-negative length.  At HEAD the certifier accepts all 11 range sites. *)
From Webp Require Conc.ConcPartExpr.
From WebpGen Require PartShapes.
Module PE := Conc.ConcPartExpr.
Theorem C12_go_statements_understood : forallb PE.kind_understood WebpGen.PartShapes.sites = true.
Proof. vm_compute. reflexivity. Qed.
Print Assumptions C12_go_statements_understood.

Theorem C12_site_partitions_tile_bounded :
  forall s, In s WebpGen.PartShapes.sites -> PE.s_kind s = "ranges"%string ->
  forall vals n, List.length vals = List.length (PE.s_vars s) ->
  Forall (fun z => In z (PE.grid_for s)) vals -> In n PE.sweep_ns ->
  let e := combine (PE.s_vars s) vals in
  exact_partition (PE.site_ranges s e n) (fst (PE.domain1 s e)) (snd (PE.domain1 s e)).
Proof. apply PE.sweep_all_sound. vm_compute. reflexivity. Qed.
Print Assumptions C12_site_partitions_tile_bounded.

Theorem C12_site_partitions_tile_all_n :
  forall s c, In s WebpGen.PartShapes.sites -> PE.certify s = Some c ->
  forall e n, let en := (PE.vN, n) :: e in
  1 <= PE.eval en (PE.s_nw s) -> 0 <= PE.eval en (PE.c_nonneg c) ->
  exact_partition (PE.site_ranges s e n) (PE.eval en (PE.c_lo c)) (PE.eval en (PE.c_hi c)).
Proof. intros s c _ H e n. exact (PE.certify_sound s e n c H). Qed.
Print Assumptions C12_site_partitions_tile_all_n.

(** animation.DecodeFramesParallel (work queue + collection of results in arrival order,
    ConcQueue.v; [dec] = the frame decoder, arbitrary; [collect] = the current loop, which
    keeps the error of the lowest frame index, fix 8f1f7ab): the decoded frames are the
    decodable frames, whatever the arrival order ... *)
From Webp Require Conc.ConcQueue.
Module Q := Conc.ConcQueue.
Theorem C12_queue_frames_independent :
  forall (A E : Type) (dec : Z -> A + E) total arrival,
  Permutation arrival (zrange total) ->
  fst (Q.collect A E dec arrival (repeat None (Z.to_nat total))) = map (Q.slot A E dec) (zrange total).
Proof. exact Q.queue_frames_independent. Qed.
Print Assumptions C12_queue_frames_independent.

(** ... the returned error is nil iff no frame fails and otherwise the error of the lowest
    failing frame index ... *)
Theorem C12_queue_min_index_error_independent :
  forall (A E : Type) (dec : Z -> A + E) total arrival fr,
  Permutation arrival (zrange total) ->
  match snd (Q.collect A E dec arrival fr) with
  | None => forall i, 0 <= i < total -> ~ Q.fails A E dec i
  | Some (j, e) => Q.is_min_fail A E dec total j e
  end.
Proof. exact Q.queue_min_index_error_independent. Qed.
Print Assumptions C12_queue_min_index_error_independent.

(** ... so frames AND error are the same for any two arrival orders, i.e. for every worker
    count and schedule. *)
Theorem C12_queue_result_order_independent :
  forall (A E : Type) (dec : Z -> A + E) total arr1 arr2,
  Permutation arr1 (zrange total) -> Permutation arr2 (zrange total) ->
  Q.collect A E dec arr1 (repeat None (Z.to_nat total)) = Q.collect A E dec arr2 (repeat None (Z.to_nat total)).
Proof. exact Q.queue_result_order_independent. Qed.
Print Assumptions C12_queue_result_order_independent.

(** About the PINNED loop ([pinned_collect]: first error to arrive) only: its returned
    error depended on the arrival order (the defect fixed by 8f1f7ab). *)
Theorem C12_pinned_queue_first_error_order_independent_refuted :
  ~ Q.pinned_queue_first_error_order_independent.
Proof. exact Q.pinned_queue_first_error_order_independent_refuted. Qed.
Print Assumptions C12_pinned_queue_first_error_order_independent_refuted.

(** Tie to the source (regenerated on every run): every read of the CPU count
    (runtime.GOMAXPROCS / NumCPU, whatever the file or function is called) is followed, in
    the same function, by its verification hook — so the per-site runs and the "all sites
    forced to k" simulation reach every such read. *)
Theorem C12_every_site_hooked :
  map (fun x => fst x) WebpGen.Sites.hook_sites = WebpGen.Sites.gomaxprocs_sites.
Proof. reflexivity. Qed.
Print Assumptions C12_every_site_hooked.

(** The decision procedure the range correspondence runs (extracted): ranges that pass it
    form an exact partition, the premise of the fork-join theorems above.  The harness applies
    it to the ranges each site handed out, for every worker count, against ONE interval per
    (workload, site, invocation) — no formula of the code is compared. *)
Theorem C12_is_tiling_sound : forall rs lo hi, is_tiling rs lo hi = true -> exact_partition rs lo hi.
Proof. exact is_tiling_sound. Qed.
Print Assumptions C12_is_tiling_sound.

