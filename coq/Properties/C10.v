(** C10 — Results do not depend on goroutine scheduling or concurrent use.
    Only statements, each closed by [exact <lemma>] and followed by [Print Assumptions].

    L1 (ConcRowSync): the row pipeline of encodeFrameParallel for every frame size
    mbW >= 1, mbH, every number of row workers n and every schedule (a schedule is a
    list of labels, [run] follows it while each label is enabled; the per-macroblock
    computation [f] and its value type are arbitrary).
    L2 (ConcWaitSignal): the waitFor / signal implementation of one row. *)
From Coq Require Import String List Arith ZArith.
From Webp Require Import Conc.ConcRowSync Conc.ConcRowSyncProofs.
From Webp Require Conc.ConcWaitSignal Conc.ConcWaitSignalProofs.
From Webp Require Conc.ConcPartition Conc.ConcPartitionProofs.
Import ListNotations.

(** Every reachable state: row y+1 is strictly behind row y unless row y is complete;
    the single shared top-context row holds, in cell x, the value of the lowest row
    that has passed x (or the initial fill); a row is never held by two workers. *)
Theorem C10_rowsync_inv :
  forall (V : Type) (v0 : V) (f : nat -> nat -> V -> V -> V -> V -> V) (mbW mbH : nat),
  1 <= mbW ->
  forall (n : nat) (sched : list label) (s : state V),
  run V v0 f mbW mbH (init V v0 n) sched = Some s ->
  (forall y, done V s (S y) = 0 \/ done V s (S y) < done V s y \/ done V s y = mbW) /\
  (forall y x, x < done V s y -> done V s (S y) <= x -> top V s x = (Some y, P V v0 f mbW (S y) x)) /\
  (forall x, done V s 0 <= x -> top V s x = (None, v0)) /\
  (forall i j y x x' (tl tl' l l' : V),
      nth_error (workers V s) i = Some (AtMB y x tl l) ->
      nth_error (workers V s) j = Some (AtMB y x' tl' l') -> i = j).
Proof. exact rowsync_inv_pipeline. Qed.
Print Assumptions C10_rowsync_inv.

(** Whenever the worker of row y may process macroblock x (its wait is over), the
    cells it reads, top[x] and top[x+1], were last written by row y-1 (writer tag)
    and hold exactly the values the serial row-major order has there; its local left
    / top-left contexts are the serial ones too. *)
Theorem C10_rowsync_reads_serial :
  forall (V : Type) (v0 : V) (f : nat -> nat -> V -> V -> V -> V -> V) (mbW mbH : nat),
  1 <= mbW ->
  forall (n : nat) (sched : list label) (s : state V) (i y x : nat) (tl l : V),
  run V v0 f mbW mbH (init V v0 n) sched = Some s ->
  nth_error (workers V s) i = Some (AtMB y x tl l) ->
  guard V mbW s y x = true ->
  top V s x = ((if y =? 0 then None else Some (y - 1)), P V v0 f mbW y x) /\
  (S x < mbW -> top V s (S x) = ((if y =? 0 then None else Some (y - 1)), P V v0 f mbW y (S x))) /\
  tl = (if x =? 0 then v0 else P V v0 f mbW y (x - 1)) /\
  l = (if x =? 0 then v0 else P V v0 f mbW (S y) (x - 1)).
Proof. exact rowsync_reads_serial. Qed.
Print Assumptions C10_rowsync_reads_serial.

(** Every run that reaches a final state — any worker count, any schedule — ends
    with the serial (one worker, row-major) macroblock results and token stream. *)
Theorem C10_rowsync_deterministic :
  forall (V : Type) (v0 : V) (f : nat -> nat -> V -> V -> V -> V -> V) (mbW mbH : nat),
  1 <= mbW ->
  forall (n : nat) (sched : list label) (s : state V),
  run V v0 f mbW mbH (init V v0 n) sched = Some s -> final V mbH s = true ->
  (forall y x, y < mbH -> x < mbW -> out V s y x = Some (serial_out V v0 f mbW y x)) /\
  tokens V s = serial_tokens V v0 f mbW mbH.
Proof. exact rowsync_deterministic. Qed.
Print Assumptions C10_rowsync_deterministic.

Theorem C10_rowsync_schedule_independent :
  forall (V : Type) (v0 : V) (f : nat -> nat -> V -> V -> V -> V -> V) (mbW mbH : nat),
  1 <= mbW ->
  forall (n1 n2 : nat) (sched1 sched2 : list label) (s1 s2 : state V),
  run V v0 f mbW mbH (init V v0 n1) sched1 = Some s1 -> final V mbH s1 = true ->
  run V v0 f mbW mbH (init V v0 n2) sched2 = Some s2 -> final V mbH s2 = true ->
  (forall y x, y < mbH -> x < mbW -> out V s1 y x = out V s2 y x) /\ tokens V s1 = tokens V s2.
Proof. exact rowsync_schedule_independent. Qed.
Print Assumptions C10_rowsync_schedule_independent.

(** No deadlock: every reachable non-final state has an enabled transition ... *)
Theorem C10_rowsync_deadlock_free :
  forall (V : Type) (v0 : V) (f : nat -> nat -> V -> V -> V -> V -> V) (mbW mbH : nat),
  1 <= mbW ->
  forall (n : nat) (sched : list label) (s : state V),
  1 <= n -> run V v0 f mbW mbH (init V v0 n) sched = Some s -> final V mbH s = false ->
  exists l, step V v0 f mbW mbH s l <> None.
Proof. exact rowsync_deadlock_free. Qed.
Print Assumptions C10_rowsync_deadlock_free.

(** ... hence every maximal run is final and carries the serial result. *)
Theorem C10_rowsync_maximal_runs_serial :
  forall (V : Type) (v0 : V) (f : nat -> nat -> V -> V -> V -> V -> V) (mbW mbH : nat),
  1 <= mbW ->
  forall (n : nat) (sched : list label) (s : state V),
  1 <= n -> run V v0 f mbW mbH (init V v0 n) sched = Some s ->
  (forall l, step V v0 f mbW mbH s l = None) ->
  (forall y x, y < mbH -> x < mbW -> out V s y x = Some (serial_out V v0 f mbW y x)) /\
  tokens V s = serial_tokens V v0 f mbW mbH.
Proof. exact rowsync_maximal_runs_serial. Qed.
Print Assumptions C10_rowsync_maximal_runs_serial.

(** No conflicting accesses: two macroblock steps enabled in the same reachable state
    belong to different rows and are at least two columns apart, so the cells they
    read ({x, x+1}) and write ({x}) in the shared context row are disjoint — no data
    race on the shared top arrays in the model, and the atomic macroblock step is justified. *)
Theorem C10_rowsync_no_conflict :
  forall (V : Type) (v0 : V) (f : nat -> nat -> V -> V -> V -> V -> V) (mbW mbH : nat),
  1 <= mbW ->
  forall (n : nat) (sched : list label) (s : state V) (i j y x : nat) (tl l : V) (y' x' : nat) (tl' l' : V),
  run V v0 f mbW mbH (init V v0 n) sched = Some s -> i <> j ->
  nth_error (workers V s) i = Some (AtMB y x tl l) -> guard V mbW s y x = true ->
  nth_error (workers V s) j = Some (AtMB y' x' tl' l') -> guard V mbW s y' x' = true ->
  y <> y' /\ x' <> x /\ x' <> S x /\ x <> S x'.
Proof. exact rowsync_no_conflict. Qed.
Print Assumptions C10_rowsync_no_conflict.

(** Every schedule is finite (no livelock): a run has at most
    mbH*mbW + 2*mbH + n steps, so every run can be extended to a maximal one. *)
Theorem C10_rowsync_terminates :
  forall (V : Type) (v0 : V) (f : nat -> nat -> V -> V -> V -> V -> V) (mbW mbH : nat),
  1 <= mbW ->
  forall (n : nat) (sched : list label) (s : state V),
  run V v0 f mbW mbH (init V v0 n) sched = Some s -> length sched <= mbH * mbW + 2 * mbH + n.
Proof. exact rowsync_terminates. Qed.
Print Assumptions C10_rowsync_terminates.

(** Phase B records a row only when it is complete, in row order, with the serial values. *)
Theorem C10_recorder_order :
  forall (V : Type) (v0 : V) (f : nat -> nat -> V -> V -> V -> V -> V) (mbW mbH : nat),
  1 <= mbW ->
  forall (n : nat) (sched : list label) (s s' : state V),
  run V v0 f mbW mbH (init V v0 n) sched = Some s -> step V v0 f mbW mbH s LRec = Some s' ->
  done V s (recRow V s) = mbW /\ recRow V s' = S (recRow V s) /\
  tokens V s' = tokens V s ++ map (serial_out V v0 f mbW (recRow V s)) (seq 0 mbW).
Proof. exact recorder_order. Qed.
Print Assumptions C10_recorder_order.

(** The extracted trace checker is sound: an event trace of the Go encoder that it
    accepts is a maximal run of the L1 system. *)
Theorem C10_check_trace_sound :
  forall (V : Type) (v0 : V) (f : nat -> nat -> V -> V -> V -> V -> V) (mbW mbH : nat),
  1 <= mbW ->
  forall (n : nat) (evs : list event),
  check_trace V v0 f mbW mbH n evs = None ->
  exists s, run V v0 f mbW mbH (init V v0 n) (flat_map label_of evs) = Some s /\
    final V mbH s = true /\
    (forall y x, y < mbH -> x < mbW -> out V s y x = Some (serial_out V v0 f mbW y x)) /\
    tokens V s = serial_tokens V v0 f mbW mbH.
Proof. exact check_trace_sound. Qed.
Print Assumptions C10_check_trace_sound.

(** Phase A / Phase B field disjointness, on the field sets regenerated from the
    current source (tools/gosrc2v/phaseb.go): what the overlapped recorder writes is
    disjoint from everything the row workers touch, and what the workers write from
    everything the recorder touches, except the row-synchronised mbInfo.  (Re-enabling
    the probability refresh in overlapped mode puts "proba" into the recorder's write set
    and breaks this statement; no separate statement about named fields is needed.) *)
From WebpGen Require PhaseB.
From Webp Require Conc.ConcPhaseB.
Theorem C10_phaseB_disjoint :
  (forall fld, In fld WebpGen.PhaseB.phaseB_writes ->
     In fld WebpGen.PhaseB.phaseA_reads \/ In fld WebpGen.PhaseB.phaseA_writes ->
     In fld Conc.ConcPhaseB.synchronised) /\
  (forall fld, In fld WebpGen.PhaseB.phaseA_writes ->
     In fld WebpGen.PhaseB.phaseB_reads \/ In fld WebpGen.PhaseB.phaseB_writes ->
     In fld Conc.ConcPhaseB.synchronised).
Proof. apply Conc.ConcPhaseB.phases_disjoint_spec. vm_compute. reflexivity. Qed.
Print Assumptions C10_phaseB_disjoint.


(** L2: waitFor / signal of one row with its atomics, mutex and condition variable;
    any row width, any number of waiters with any lists of [needed] <= mbW, any schedule. *)
Module W := Conc.ConcWaitSignal.
Module WP := Conc.ConcWaitSignalProofs.

(** waitFor returns only when done >= needed. *)
Theorem C10_waitfor_returns_only_when_done :
  forall (mbW : nat) (calls : list (list nat)) (sched : list W.label) (s : W.st) (j : nat) (s' : W.st) (w w' : W.wproc),
  Forall (Forall (fun nd => nd <= mbW)) calls ->
  W.run mbW (W.init mbW calls) sched = Some s -> W.step mbW s (W.LWt j) = Some s' ->
  nth_error (W.ws s) j = Some w -> nth_error (W.ws s') j = Some w' ->
  WP.in_call (W.pc w) = true -> W.pc w' = W.WIdle ->
  WP.pc_nd (W.pc w) <= W.done s'.
Proof. exact WP.waitfor_returns_only_when_done. Qed.
Print Assumptions C10_waitfor_returns_only_when_done.

(** No lost wake-up: in every reachable state, a waiter that sleeps in cond.Wait
    while done >= needed has a Broadcast pending (the signaller is between its
    waiters load and its Broadcast), and a waiter that is committed to cond.Wait
    (checked done < needed, still holds the mutex) while done >= needed finds the
    signaller before its Lock — so the Broadcast comes after the waiter sleeps. *)
Theorem C10_no_lost_wakeup :
  forall (mbW : nat) (calls : list (list nat)) (sched : list W.label) (s : W.st) (j : nat) (w : W.wproc) (nd : nat),
  Forall (Forall (fun nd => nd <= mbW)) calls ->
  W.run mbW (W.init mbW calls) sched = Some s -> nth_error (W.ws s) j = Some w ->
  nd <= W.done s ->
  (W.pc w = W.WSleep nd -> WP.pending (W.sig s) = true) /\
  (W.pc w = W.WWaitCall nd -> WP.load_lock (W.sig s) = true /\ W.mu s = Some (W.OW j)).
Proof. exact WP.no_lost_wakeup. Qed.
Print Assumptions C10_no_lost_wakeup.

Theorem C10_broadcast_wakes_all :
  forall (mbW : nat) (s : W.st) (d : nat) (s' : W.st), W.sig s = W.SBcast d -> W.step mbW s W.LS = Some s' ->
  forall j w', nth_error (W.ws s') j = Some w' -> forall nd, W.pc w' <> W.WSleep nd.
Proof. exact WP.broadcast_wakes_all. Qed.
Print Assumptions C10_broadcast_wakes_all.

(** The protocol never deadlocks: until the signaller has finished and every waiter
    has returned from all its calls, some step is enabled. *)
Theorem C10_waitsignal_deadlock_free :
  forall (mbW : nat) (calls : list (list nat)) (sched : list W.label) (s : W.st),
  Forall (Forall (fun nd => nd <= mbW)) calls ->
  W.run mbW (W.init mbW calls) sched = Some s -> W.finished s = false ->
  exists l, W.step mbW s l <> None.
Proof. exact WP.l2_deadlock_free. Qed.
Print Assumptions C10_waitsignal_deadlock_free.

(** The detailed system (ConcDetailed.v): the whole pipeline with every worker executing
    the real waitFor / signal steps (fast-path load, waiters counter, mutex, cond.Wait,
    Broadcast) around each macroblock, the macroblock body split into a read-neighbour and a
    write-own sub-step, and the recorder doing the same per row.
    Refinement: every run of the detailed system projects (abstraction [abs]: a worker
    inside waitFor has not started its macroblock, a worker inside signal has finished
    it) to a run of the L1 system ending in the abstraction of its last state. *)
From Webp Require Conc.ConcDetailed Conc.ConcDetailedProofs.
Module D := Conc.ConcDetailed.
Theorem C10_detailed_refines_rowsync :
  forall (V : Type) (v0 : V) (f : nat -> nat -> V -> V -> V -> V -> V) (mbW mbH : nat),
  1 <= mbW ->
  forall (n : nat) (sched : list label) (s : D.dstate V),
  D.drun V v0 f mbW mbH (D.dinit V v0 n) sched = Some s ->
  exists sched1, run V v0 f mbW mbH (init V v0 n) sched1 = Some (D.abs V mbW s).
Proof. exact Conc.ConcDetailedProofs.detailed_refines_rowsync. Qed.
Print Assumptions C10_detailed_refines_rowsync.

(** so the L1 results transfer: a detailed run that reaches a final state ends with the
    serial macroblock results and token stream, whatever the schedule ... *)
Theorem C10_detailed_final_runs_serial :
  forall (V : Type) (v0 : V) (f : nat -> nat -> V -> V -> V -> V -> V) (mbW mbH : nat),
  1 <= mbW ->
  forall (n : nat) (sched : list label) (s : D.dstate V),
  D.drun V v0 f mbW mbH (D.dinit V v0 n) sched = Some s -> D.dfinal V mbH s = true ->
  (forall y x, y < mbH -> x < mbW -> D.d_out V s y x = Some (serial_out V v0 f mbW y x)) /\
  D.d_tokens V s = serial_tokens V v0 f mbW mbH.
Proof. exact Conc.ConcDetailedProofs.detailed_deterministic. Qed.
Print Assumptions C10_detailed_final_runs_serial.

(** ... and whenever a macroblock body runs in the detailed system, the shared context
    cells it reads hold the serial values (row y-1's). *)
Theorem C10_detailed_reads_serial :
  forall (V : Type) (v0 : V) (f : nat -> nat -> V -> V -> V -> V -> V) (mbW mbH : nat),
  1 <= mbW ->
  forall (n : nat) (sched : list label) (s : D.dstate V) (i y x : nat) (tl l : V),
  D.drun V v0 f mbW mbH (D.dinit V v0 n) sched = Some s ->
  nth_error (D.d_workers V s) i = Some (D.DCompute y x tl l) ->
  D.d_top V s x = ((if y =? 0 then None else Some (y - 1)), P V v0 f mbW y x) /\
  (S x < mbW -> D.d_top V s (S x) = ((if y =? 0 then None else Some (y - 1)), P V v0 f mbW y (S x))).
Proof. exact Conc.ConcDetailedProofs.detailed_reads_serial. Qed.
Print Assumptions C10_detailed_reads_serial.

(** The macroblock body is TWO steps in the detailed system — read the neighbour contexts
    top[x], top[x+1]; later compute and write top[x] and the output.  The values a worker
    holds in between are still the serial ones when it writes (no other worker writes the
    cells it read), and what it then writes is the serial result. *)
Theorem C10_detailed_held_values_serial :
  forall (V : Type) (v0 : V) (f : nat -> nat -> V -> V -> V -> V -> V) (mbW mbH : nat),
  1 <= mbW ->
  forall (n : nat) (sched : list label) (s : D.dstate V) (i y x : nat) (tl l t tr : V),
  D.drun V v0 f mbW mbH (D.dinit V v0 n) sched = Some s ->
  nth_error (D.d_workers V s) i = Some (D.DHold y x tl l t tr) ->
  t = P V v0 f mbW y x /\ (S x < mbW -> tr = P V v0 f mbW y (S x)) /\
  f y x tl t tr l = serial_out V v0 f mbW y x.
Proof. exact Conc.ConcDetailedProofs.detailed_held_values_serial. Qed.
Print Assumptions C10_detailed_held_values_serial.

(** The detailed system never deadlocks: every reachable state that is not final has an
    enabled transition (multi-row version of the L2 invariant: waiters counter = number
    of counted waiters, mutex owner = the process in a holding phase, a waiter asleep or
    committed to cond.Wait while its row is ready has the row's signaller before its
    Broadcast). *)
From Webp Require Conc.ConcDetailedLive.
Module DL := Conc.ConcDetailedLive.
Theorem C10_detailed_deadlock_free :
  forall (V : Type) (v0 : V) (f : nat -> nat -> V -> V -> V -> V -> V) (mbW mbH : nat),
  1 <= mbW ->
  forall (n : nat) (sched : list label) (s : D.dstate V), 1 <= n ->
  D.drun V v0 f mbW mbH (D.dinit V v0 n) sched = Some s -> D.dfinal V mbH s = false ->
  exists l, D.dstep V v0 f mbW mbH s l <> None.
Proof. exact DL.detailed_deadlock_free. Qed.
Print Assumptions C10_detailed_deadlock_free.

(** Every maximal run of the detailed system — real waitFor / signal steps, any frame
    size, any number of workers, any schedule — ends with the serial macroblock results
    and token stream. *)
Theorem C10_detailed_system_deterministic :
  forall (V : Type) (v0 : V) (f : nat -> nat -> V -> V -> V -> V -> V) (mbW mbH : nat),
  1 <= mbW ->
  forall (n : nat) (sched : list label) (s : D.dstate V), 1 <= n ->
  D.drun V v0 f mbW mbH (D.dinit V v0 n) sched = Some s ->
  (forall l, D.dstep V v0 f mbW mbH s l = None) ->
  (forall y x, y < mbH -> x < mbW -> D.d_out V s y x = Some (serial_out V v0 f mbW y x)) /\
  D.d_tokens V s = serial_tokens V v0 f mbW mbH.
Proof. exact DL.detailed_system_deterministic. Qed.
Print Assumptions C10_detailed_system_deterministic.

(** No lost wake-up in the detailed system. *)
Theorem C10_detailed_no_lost_wakeup :
  forall (V : Type) (v0 : V) (f : nat -> nat -> V -> V -> V -> V -> V) (mbW mbH : nat),
  1 <= mbW ->
  forall (n : nat) (sched : list label) (s : D.dstate V) (i y x : nat) (tl l : V) (ph : D.wph),
  D.drun V v0 f mbW mbH (D.dinit V v0 n) sched = Some s ->
  nth_error (D.d_workers V s) i = Some (D.DWait y x tl l ph) ->
  needed mbW x <= D.d_done V s (y - 1) -> ph = D.PWaitCall \/ ph = D.PSleep ->
  exists j x' tl' l' sp, nth_error (D.d_workers V s) j = Some (D.DSig (y - 1) x' tl' l' sp) /\
                         DL.okphase ph sp = true.
Proof. exact DL.detailed_no_lost_wakeup. Qed.
Print Assumptions C10_detailed_no_lost_wakeup.

(** Liveness without any fairness assumption: every run of the detailed system is finite,
    with an explicit bound (no process can spin: a blocked process is disabled) ... *)
From Webp Require Conc.ConcDetailedTerm.
Module DT := Conc.ConcDetailedTerm.
Theorem C10_detailed_terminates :
  forall (V : Type) (v0 : V) (f : nat -> nat -> V -> V -> V -> V -> V) (mbW mbH : nat),
  1 <= mbW ->
  forall (n : nat) (sched : list label) (s : D.dstate V),
  D.drun V v0 f mbW mbH (D.dinit V v0 n) sched = Some s -> length sched <= DT.run_bound mbW mbH n.
Proof. exact DT.detailed_terminates. Qed.
Print Assumptions C10_detailed_terminates.

(** ... so under EVERY scheduler an execution that is continued as long as a step is
    enabled reaches the final state (all rows encoded, all tokens recorded) within the
    bound: at any point of any run either the state is final or some step is enabled. *)
Theorem C10_detailed_always_reaches_final :
  forall (V : Type) (v0 : V) (f : nat -> nat -> V -> V -> V -> V -> V) (mbW mbH : nat),
  1 <= mbW ->
  forall (n : nat) (sched : list label) (s : D.dstate V), 1 <= n ->
  D.drun V v0 f mbW mbH (D.dinit V v0 n) sched = Some s ->
  length sched <= DT.run_bound mbW mbH n /\
  (D.dfinal V mbH s = true \/ exists l, D.dstep V v0 f mbW mbH s l <> None).
Proof. exact DT.detailed_always_reaches_final. Qed.
Print Assumptions C10_detailed_always_reaches_final.

(** sync.Pool shared by concurrent public-API calls (ConcPoolShare.v), composed with C11's
    pool model: any number of goroutines, Get / Put events interleaved arbitrarily, the
    runtime free to drop pooled objects, to hand out any pooled object or none, to keep a
    returned object or not.  Under the hypotheses of C11's history_independent (reset
    completeness — a regenerated, machine-checked fact per pooled type —, frame condition,
    dimension gate, ConstZero fields) every call returns what it returns on a fresh object ... *)
From Webp Require Conc.PoolModel Conc.ConcPoolShare.
Module PM := Conc.PoolModel.
Module PS := Conc.ConcPoolShare.
Theorem C10_pool_share_outputs_fresh :
  forall (Args Out Val Shape : Type) (shape : Args -> Val -> Shape)
         (fields : list String.string) (cls : list (String.string * PM.fclass))
         (assigned released : list String.string) (init : Args -> String.string -> Val) (nilv zerov : Val)
         (gate : Args -> PM.obj Val -> bool) (run : Args -> PM.obj Val -> Out * PM.obj Val),
  PM.reset_complete_b fields cls assigned released = true ->
  PM.frame_condition Args Out Val Shape shape fields cls run ->
  PM.dimension_gate_condition Args Val Shape shape fields cls assigned init gate ->
  (forall a, PM.czero_inv Val fields cls zerov (PM.fresh Args Val init a)) ->
  (forall a o, PM.czero_inv Val fields cls zerov o -> PM.czero_inv Val fields cls zerov (snd (run a o))) ->
  forall (es : list (PS.event Args)) (st : PS.pstate Args Out Val) (g : nat) (a : Args) (out : Out),
  PS.prun Args Out Val assigned released init nilv gate run (PS.pinit Args Out Val) es = Some st ->
  In (g, a, out) (PS.outs Args Out Val st) -> out = fst (run a (PM.fresh Args Val init a)).
Proof. exact PS.pool_share_outputs_fresh. Qed.
Print Assumptions C10_pool_share_outputs_fresh.

(** ... and ownership is exclusive: the objects in the pool and the objects held by
    goroutines always have pairwise different identities, a goroutine holds at most one. *)
Theorem C10_pool_share_exclusive :
  forall (Args Out Val Shape : Type) (shape : Args -> Val -> Shape)
         (fields : list String.string) (cls : list (String.string * PM.fclass))
         (assigned released : list String.string) (init : Args -> String.string -> Val) (nilv zerov : Val)
         (gate : Args -> PM.obj Val -> bool) (run : Args -> PM.obj Val -> Out * PM.obj Val),
  PM.reset_complete_b fields cls assigned released = true ->
  PM.frame_condition Args Out Val Shape shape fields cls run ->
  PM.dimension_gate_condition Args Val Shape shape fields cls assigned init gate ->
  (forall a, PM.czero_inv Val fields cls zerov (PM.fresh Args Val init a)) ->
  (forall a o, PM.czero_inv Val fields cls zerov o -> PM.czero_inv Val fields cls zerov (snd (run a o))) ->
  forall (es : list (PS.event Args)) (st : PS.pstate Args Out Val),
  PS.prun Args Out Val assigned released init nilv gate run (PS.pinit Args Out Val) es = Some st ->
  NoDup (map fst (PS.pool Args Out Val st) ++ map (PS.h_id Args Val) (PS.held Args Out Val st)) /\
  NoDup (map (PS.h_g Args Val) (PS.held Args Out Val st)).
Proof. exact PS.pool_share_exclusive. Qed.
Print Assumptions C10_pool_share_exclusive.

(** Why signal takes and releases the row mutex before Broadcast: the variant without that
    pair loses a wake-up (a waiter committed to cond.Wait is overtaken by store + load +
    Broadcast-to-nobody and sleeps for ever) ... *)
From Webp Require Conc.ConcWaitSignalNoLock.
From WebpGen Require RowSyncSrc.
Module NL := Conc.ConcWaitSignalNoLock.
Theorem C10_nolock_lost_wakeup_refuted : ~ NL.nolock_no_lost_wakeup.
Proof. exact NL.nolock_lost_wakeup_refuted. Qed.
Print Assumptions C10_nolock_lost_wakeup_refuted.

Theorem C10_nolock_deadlock_witness :
  exists s, NL.run_nolock 1 (W.init 1 [[1]]) NL.lost_wakeup_schedule = Some s /\
            W.finished s = false /\ forall l, NL.step_nolock 1 s l = None.
Proof. exact NL.nolock_deadlock_witness. Qed.
Print Assumptions C10_nolock_deadlock_witness.

(** ... and the code has the pair: the sequences of synchronisation operations of waitFor and
    signal (operations on done / waiters / mu / cond with the blocks around them; identifiers,
    hook lines and all other statements abstracted away), regenerated from the source, are
    those the L2 model has one transition for, and encodeRow's macroblock loop waits before it
    signals. *)
Theorem C10_rowsync_source_matches_model :
  WebpGen.RowSyncSrc.waitFor_ops = NL.modelled_waitFor_ops /\
  WebpGen.RowSyncSrc.signal_ops = NL.modelled_signal_ops /\
  WebpGen.RowSyncSrc.encodeRow_sync_calls = NL.modelled_encodeRow_sync_calls.
Proof. repeat split; reflexivity. Qed.
Print Assumptions C10_rowsync_source_matches_model.

(** Fork–join sections (shared with C12): disjoint writes + join make the result
    independent of the interleaving, the worker count and the partition; work-queue
    sections (DecodeFramesParallel) are independent of the order in which items are taken. *)
Module Pt := Conc.ConcPartition.
Module PtP := Conc.ConcPartitionProofs.
Open Scope Z_scope.

Theorem C10_forkjoin_deterministic :
  forall (A : Type) (f : Z -> A) total (init : list A) rs1 rs2 ops1 ops2,
  PtP.exact_partition rs1 0 total -> PtP.exact_partition rs2 0 total ->
  length init = Z.to_nat total ->
  Pt.Shuffle (map Pt.indices rs1) ops1 -> Pt.Shuffle (map Pt.indices rs2) ops2 ->
  Pt.run_writes f ops1 init = Pt.run_writes f ops2 init.
Proof. exact PtP.forkjoin_deterministic. Qed.
Print Assumptions C10_forkjoin_deterministic.

Theorem C10_queue_site_independent :
  forall (A : Type) (f : Z -> A) total (init : list A) ops,
  Permutation.Permutation ops (Pt.zrange total) -> length init = Z.to_nat total ->
  Pt.run_writes f ops init = map f (Pt.zrange total).
Proof. exact PtP.queue_site_independent. Qed.
Print Assumptions C10_queue_site_independent.

(** Tie to the source (regenerated on every run): every [go] statement of the library —
    whatever its file or function is called — is a spawn loop `for w := 0; w < N; w++` handing
    out ranges, a set of workers draining a queue, or a single goroutine (the one that closes
    the result channel after the join).  Only the goroutine STRUCTURE is stated here; whether
    the ranges cover is C12's subject (a change of the partition arithmetic cannot break this
    statement).  And the trace points the checker relies on are the hook's constants. *)
From WebpGen Require Sites Consts PartShapes.
From Webp Require Conc.ConcPartExpr.
Theorem C10_go_statements_modelled :
  forallb Conc.ConcPartExpr.structure_understood WebpGen.PartShapes.sites = true /\
  WebpGen.PartShapes.sites <> [].
Proof. split; [vm_compute; reflexivity | discriminate]. Qed.
Print Assumptions C10_go_statements_modelled.

Theorem C10_trace_points :
  [WebpGen.Consts.verifhook_PointClaim; WebpGen.Consts.verifhook_PointMBBegin;
   WebpGen.Consts.verifhook_PointWaitEnter; WebpGen.Consts.verifhook_PointWaitSlow;
   WebpGen.Consts.verifhook_PointCondWait; WebpGen.Consts.verifhook_PointMBStart;
   WebpGen.Consts.verifhook_PointExport; WebpGen.Consts.verifhook_PointSignal;
   WebpGen.Consts.verifhook_PointSignalSlow; WebpGen.Consts.verifhook_PointRecordRow]
  = [0; 1; 2; 3; 4; 5; 6; 7; 8; 9].
Proof. reflexivity. Qed.
Print Assumptions C10_trace_points.
