"""C03 configuration for bin/check and bin/mkmanifest.py."""


def case_key(case, kind):
    """Violation class of a failing stream-level case, from the tag the harness put on the case line."""
    f = case.split(" ")
    if len(f) >= 3 and f[0] in ("dec", "plan") and "packed-index-then-transform" in f[1]:
        return kind + ":packed-colour-index-inverse-in-place"
    return kind


CFG = {
    "ready": False,
    "runner_in_harness": True,
    "case_key": case_key,
    "level_text": "",
    "level_note": "",
    "technique": "Rocq: executable specification decoder + proofs about transforms/entropy layer; extraction-based differential execution against the Go decoder",
    "notes": [],
    "partial": [],
    "trusted_base": [],
    "assumptions": [],
}
