"""C03 configuration for bin/check and bin/mkmanifest.py."""


def case_key(case, kind):
    """Violation class of a failing stream-level case, from the tag the harness put on the case line."""
    f = case.split(" ")
    if len(f) >= 3 and f[0] in ("dec", "plan") and "packed-index-then-transform" in f[1]:
        return kind + ":packed-colour-index-inverse-in-place"
    if f and f[0] in ("cpb", "ecm", "aiv", "huf", "p2d"):
        return kind + ":kernel-" + f[0]
    return kind


CFG = {
    "ready": True,
    "runner_in_harness": True,
    "case_key": case_key,
    "level_text": "Proof + executable specification. 'The pixels the format defines' is an executable Gallina decoder (Vp8lSpec.decode) written from the WebP lossless bitstream specification: LSB-first bit reader, header, transforms in any order each at most once, colour cache, meta prefix image, simple/normal prefix codes with the code-length code, 16/17/18 repeats and max_symbol, canonical codes, LZ77 with the 120 plane codes, inverse transforms on separate buffers. Proved for all inputs (Properties/C03.v, 26 theorems, no axioms): (1) emit_decode — for every well-formed plan (any transform subset/order, tile bits, palette size; with or without meta prefix image and any number of groups; any cache bits; any mix of simple/normal codes; any valid literal/cache/copy token list) the specification decoder applied to the bytes of a bit-exact emitter returns the pixels the plan denotes; well-formedness has a sound extracted boolean checker (C03_emit_decode_checked) that the harness runs on every generated plan and on the plan recovered from every stream /repo's encoder writes (byte-exact re-emission), so the theorem applies to those actual bytes; its layers are separate theorems: canonical prefix codes (C03_prefix_roundtrip, C03_complete_code_accepted, C03_canonical_recurrence), code transmission (C03_code_roundtrip), length/distance prefix coding (C03_lz_roundtrip), token level for one group and for meta groups (C03_entropy_roundtrip, C03_entropy_roundtrip_groups), bit layer (C03_read_put_bits); (2) the four inverse transforms undo their forward transforms (all 14 predictor modes via any mode assignment, edge rules, width 1; all multipliers; all four index packings with ragged widths); (3) implementation models equal the specification: the repaired ping-pong dataflow of applyInverseTransforms for every transform chain and any stale buffer content (the pinned in-place dataflow is refuted by a 9-pixel witness), copyBlock32 (memmove/fill/doubling) = pixel-by-pixel copy for all arguments, deferred colour-cache insertion under any flush schedule = immediate insertion, expandColorMap lookup = specified lookup, the Huffman lookup tables (BuildHuffmanTable + ReadSymbol model) = the canonical code for every accepted length vector whose lengths fit the root table (C03_lut_decode_eq_canonical_partial), the trivial-literal basis; (4) the plane-code table and the format constants regenerated from the source equal the specification's. Every run compares the Go decoder with the extracted specification on emitter-generated streams covering the whole feature space (covering plans + random plans), on /repo's encoder outputs over colour-count x Method x Quality, on the testdata files, and kernel by kernel (copyBlock32, expandColorMap, applyInverseTransforms, Huffman tables incl. two-level, PlaneCodeToDistance), each Go decode under a wall-clock cap.",
    "level_note": "Not proved: decode_complete (every stream the specification accepts is the image of a well-formed plan); the two-level case of the Huffman lookup tables (modelled and compared with the code on every run, theorem only stated: Vp8lLut.lut_decode_eq_canonical_statement); the 64-bit window bit reader and the packed-table fast path have no implementation model (no verif hook for internal/bitio yet) — they are covered by the stream-level differential runs only. wf_plan bounds dimensions by 16384, gives each sub-image one prefix-code group (as the format does) and excludes predictor modes > 13. Trusted: Coq kernel, extraction, OCaml glue, Go harness and generators, translator.",
    "technique": "Rocq: executable specification decoder and emitter, proofs about transforms / buffer dataflow / kernels, extraction-based differential execution against the Go decoder on emitter-generated streams",
    "notes": [
        "spec side (S) of every stream case = extracted Vp8lSpec.decode resp. Vp8lEmit.sem; implementation side = webp.Decode (RIFF-wrapped) and lossless.DecodeVP8L (bare), which must agree",
        "plan cases: I = Spec.decode(emit plan), S = sem plan, implementation = Go decode of emit plan: all three must be equal",
        "replan: for every stream written by /repo's encoder and every testdata file the extracted plan-recovering decoder (Vp8lTrace.trace_decode) returns a plan p; the harness checks wf_planb p = true and emit p = the bytes (byte-exact); when both hold C03_emit_decode_checked applies to those very bytes; counters replan:*; streams outside the fragment are counted, not reported",
        "covering plans (every run, before the random plans): > 256 prefix-code groups with tiles referring to groups >= 256 through the red byte of the entropy image and random literals per group; every distance code 1..120; colour-cache bits 11; tile bits 9 for predictor, cross-colour and meta image; palette indices beyond the palette for every packing; widths 1, 2, 3 with all 120 plane codes (distance < 1 clamped to 1); counters plan:max:group-index-*, plan:index:palette-index-beyond-palette, plan:code:simple2-larger-symbol-first, distinct-plane-codes-hit, plan:tile-bits:9, plan:cache-bits:11",
        "every Go decode runs under a 5 s wall-clock cap (goroutine); TIMEOUT / PANIC on an emitted valid stream is a direct violation with the file as failing input, and an entry point that hung twice is not called again",
        "C03_WRITE_CORPUS=<dir> makes the harness write the RIFF-wrapped emitted streams (covering plans + small random plans) as files: corpus/c05/vp8l-foreign is generated this way",
        "kernel cases: copyBlock32, expandColorMap, applyInverseTransforms on given buffers (implementation model = ping-pong dataflow), BuildHuffmanTable+ReadSymbol vs canonical tree, PlaneCodeToDistance for all 120 codes",
        "defect found on the pinned tree and fixed in /repo 56944c7: applyInverseTransforms ran the pixel-packing colour-indexing inverse in place (<=16 colours with a second transform): C03_inplace_inverse_refuted",
    ],
    "partial": [
        "C03_lut_decode_eq_canonical_partial: proved when no code length exceeds the root table size (7-bit code-length table always; 8-bit tables when lengths <= 8); the second-level tables (nextTableBitSize, linked sub-tables) are in the model Vp8lLut.lut_build/lut_read and tied by the huf correspondence cases, full statement Vp8lLut.lut_decode_eq_canonical_statement is not proved",
        "not stated as theorems: decode_complete, bitreader_window_refines (needs an add-only verif export for internal/bitio.LosslessReader to tie a model), packed_table_eq",
        "wf_plan bounds dimensions by 16384 and excludes predictor modes > 13",
    ],
    "trusted_base": [
        "modelled, not verified: internal/lossless decode.go, decode_image.go, decode_transform.go, huffman.go, colorcache.go, internal/bitio/reader_lossless.go; the specification model is written from RFC 9649, the plane-code table is a frozen copy checked against the source table and against its closed-form characterisation",
    ],
    "assumptions": ["predictor modes 14 and 15 in a predictor sub-image are treated as an invalid stream by the specification model (the format defines 14 modes)"],
    "harness_timeout": {"quick": 900, "thorough": 7200},
}
