"""C12 configuration for bin/check and bin/mkmanifest.py."""
CFG = {
   "ready": True,
   "level_text": "Proof (with two refuted sub-claims recorded as findings): for every worker count n >= 1 and every size, the index ranges that each fork-join site of the codec hands to its goroutines (proportional row split of the lossy import, ceil-sized clipped chunks of the lossless predictor / cross-colour / histogram sites, floor split with remainder of the lossless decoder sites, hash-chain positions, computeAlphas rows with break) are pairwise disjoint, in bounds and cover the index space exactly (Coq theorems C12_partition_exact_*), and a fork-join over such a partition equals the serial loop under every interleaving (C12_map_/inplace_/sum_site_independent). The claim that the ALGORITHM chosen never depends on the CPU count is refuted for the pinned tree at two sites (C12_algorithm_choice_*_refuted: lossy EncodeFrame.useParallel, lossless hashchain.Fill); the check reproduces both on the real code and reports them as known findings. The model is tied to the code on every run by the translator (list of every GOMAXPROCS read / go statement / hook = modelled sites), by comparing the ranges logged by the hooks with the extracted formulas, and by per-site and whole-process differential runs.",
   "level_note": "Trusted: Coq kernel, extraction, OCaml glue, Go harness, translator, the verifhook override (a forced worker count stands for GOMAXPROCS at that site; its faithfulness is itself checked against child processes). The per-item functions are abstract (their 'reads only inputs' frame condition is what the differential runs probe); serial-vs-worker bodies of computeAlphas and the equality of the serial and row-parallel lossy encoders are outside the model.",
   "technique": "Rocq proofs of exact-partition and fork-join determinism lemmas over executable partition models; translator-regenerated site list obligations; extraction-based correspondence on logged ranges; per-site worker-count override differential + child processes with different GOMAXPROCS",
   "notes": [
     "partition theorems hold for ALL n >= 1 and ALL sizes (no bound); map/inplace/sum lemmas for ALL interleavings (Shuffle) / completion orders (Permutation)",
     "algorithm_choice_independent is refuted (kept as Definition in ConcPartitionProofs.v): n = 1 selects encodeFrame / fillSerial, n >= 2 selects encodeFrameParallel / fillParallel, and these produce different bytes; C12_algorithm_choice_agrees_above_one shows the step 1 -> 2 is the only one",
     "direct evaluation: per-site override n in 1..16,17,64 vs n = 1 (and vs n = 2 for the two choice sites); child processes GOMAXPROCS in {1,2,3,4,5,8,16} vs in-process simulation and vs each other",
   ],
   "partial": [
     "algorithm_choice_independent: false on the pinned tree (two sites, known findings with site-specific keys; patches in work/patches/c12-*.diff)",
     "analysis_worker_eq_serial (computeAlphas worker body = serial body) and serial_eq_parallel (encodeFrame = encodeFrameParallel bytes) are not modelled; covered only by the differential runs",
   ],
   "trusted_base": ["modelled, not verified: the partition arithmetic at the 11 fork-join sites (internal/lossy/encode.go importImage, encode_analysis.go computeAlphas, internal/lossless/{hashchain,encode_predictor,encode_histogram,decode_transform,decode}.go) and the worker-count clamps of encodeFrameParallel / DecodeFramesParallel",
                    "internal/verifhook (build tag verif): Workers/Parallel overrides stand for runtime.GOMAXPROCS(0) at one site"],
   "assumptions": ["Go int is 64-bit; all operands of the partition arithmetic are non-negative so Go's truncated division equals Z.div"],
   "harness_timeout": {"quick": 900, "thorough": 3600},
 }
