"""C08 configuration for bin/check and bin/mkmanifest.py."""
CFG = {
   "ready": False,
   "level_text": "WORK IN PROGRESS",
   "level_note": "",
   "technique": "Rocq proof by invariant over AddFrame histories of an executable AnimEncoder model; extraction-based correspondence with the Go encoder driven by the recorded size comparisons",
   "notes": [],
   "partial": [],
   "trusted_base": [],
   "assumptions": [],
 }
