"""C13 configuration for bin/check and bin/mkmanifest.py."""


def _case_key(case, kind):
    op = case.split(" ", 1)[0]
    if kind == "spec-mismatch" and op.endswith("!"):
        # input outside the proven no-wrap range: the lane-16 model (= what the
        # assembly computes) differs from the portable kernel
        return "lane16-wrap:" + op[:-1]
    return "kernel-spec-mismatch:" + op


CFG = {
    "ready": False,
    "level_text": "Proof for two of the three parts. (1) Int-width independence: the translator lists, from the typed syntax tree of the files a 32-bit target compiles, every constant expression whose final type is int/uint/uintptr (9 400+ expressions, width-dependent ones such as math.MaxInt evaluated for GOARCH=386) and Coq re-checks on every run that each fits 32 bits (complete finite check; an out-of-range constant fails the obligation and is named by position). (2) SIMD algorithms: Gallina models with explicit 16-bit lanes (wrapping PADDW/PSUBW, PMULHW with 20091 and 35468-65536, PSRAW, PACKUSWB) of the IDCT, inverse WHT and forward WHT are proved equal to the portable kernels on the widest coefficient boxes for which no lane feeding a non-linear operation wraps (|c|<=2212, 2047, 2047; maximality proved by witnesses), and the full statement over all int16 blocks - which a valid bitstream can deliver - is refuted by concrete blocks that replay on the real kernels (known findings). (3) Instrumentation: portable vs dispatched vs SSE2 vs AVX2 kernels on random/extreme/boundary inputs, Encode/Decode digests of the normal build vs an overlay build without any architecture-specific file, and `go build ./...` for a GOOS/GOARCH matrix.",
    "level_note": "Not proof: the assembly text is not modelled instruction by instruction (it is tied to the lane-16 models by running both on the same inputs); 'compiles for every GOOS/GOARCH' is checked by running the compiler on a matrix, the int-width theorem covers only constant representability; arm64 NEON code cannot be executed here. Trusted: Coq kernel, extraction, OCaml glue, Go harness, translator (go/types).",
    "technique": "Rocq proof of lane-16 SIMD algorithm models against portable kernels + complete int-width constant check over translator output; differential execution of assembly/portable kernels and of two builds; cross-compilation matrix",
    "notes": [
        "proof: C13_int_constants_fit_32bit / C13_uint_constants_fit_32bit / C13_no_*_constant_out_of_range (complete finite check over Gen/IntWidth.v, regenerated each run)",
        "proof: C13_lane16_idct_eq (box |c|<=2212) and C13_lane16_idct_eq_fits (semantic no-wrap condition), C13_lane16_wht_eq, C13_lane16_fwht_eq (|c|<=2047)",
        "refuted (findings): C13_lane16_idct_differs_refuted, C13_idct_box_maximal, C13_lane16_wht_differs_refuted, C13_lane16_fwht_differs_refuted - witnesses replayed on the real kernels each run",
        "instrumentation only: kernel differential (portable / dispatched / sse2 / avx2), pipeline digests normal vs overlay build, build matrix, go vet for linux/386",
    ],
    "partial": [
        "The assembly routines themselves are not verified: the lane-16 models describe the algorithms; model vs assembly is sampled correspondence.",
        "FDCT, TDisto, SSE16x16, DC/VE/HE predictors, upsampler, quantiser and AVX2-vs-SSE2 equivalence are covered by differential execution only (no theorem).",
        "Reachability of out-of-range coefficients by the *encoder's own* ITransform/FTransformWHT/QuantizeCoeffs inputs is argued (|FDCT output| <= 2040) but not proved; differences there outside the reachable range are counted, not reported.",
        "Compilation for every GOOS/GOARCH is checked by running `go build` on a matrix (quick: 5 targets, thorough: 22), not proved.",
    ],
    "trusted_base": ["modelled, not verified: internal/dsp/transforms_amd64.s (iTransformOneSSE2, transformWHTSSE2, fTransformWHTSSE2), predict_amd64.s (tm16/tm8uv), filter_amd64.s, lossless_amd64.s, ssim_amd64.s (sse4x4) as lane-16 algorithms; transforms.go, predict_lossy.go, filter.go, lossless_dsp.go, ssim.go as portable semantics",
                     "go/types with 64-bit sizes (values of constant expressions) and, for width-dependent constants, math / math/bits / strconv type-checked for GOARCH=386"],
    "assumptions": ["PMULHW/PADDW/PSUBW/PSRAW/PACKUSWB/PSUBUSW/PMADDWD semantics as in the Intel SDM", "the check runs on an amd64 machine (assembly variants are executed natively)"],
    "case_key": _case_key,
    "harness_timeout": {"quick": 900, "thorough": 7200},
}
