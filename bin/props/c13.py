"""C13 configuration for bin/check and bin/mkmanifest.py."""


def _case_key(case, kind):
    op = case.split(" ", 1)[0]
    if kind == "spec-mismatch" and op.endswith("!"):
        # input outside the proven no-wrap range: the lane-16 model (= what the
        # assembly computes) differs from the portable kernel
        return "lane16-wrap:" + op[:-1]
    return "kernel-spec-mismatch:" + op


CFG = {
    "ready": True,
    "level_text": "Proof for two of the three parts. (1) Int-width independence: the translator lists, from the typed syntax tree of the files a 32-bit target compiles (GOARCH 386/arm/mipsle/wasm, windows/386), every constant expression whose final type is int/uint/uintptr (9 400+ expressions; width-dependent ones such as math.MaxInt or ^uint(0)>>1 are evaluated against math, math/bits, strconv type-checked for GOARCH=386) and Coq re-checks on every run that each fits 32 bits (complete finite check; an out-of-range constant fails the obligation and is named by file:line:col). (2) SIMD algorithms: Gallina models with explicit 16-/32-bit lanes (wrapping PADDW/PSUBW, PMULHW with 20091 and 35468-65536, PSRAW, PACKUSWB/PACKSSDW saturation, PMADDWD, PSUBUSW, PMULUDQ) of the IDCT, inverse WHT, forward WHT, forward DCT, TrueMotion predictor, simple loop filter, green transforms, SSE, Hadamard distortion, YUV->RGB and AC quantisation are proved equal to the portable kernels - on all byte inputs where the inputs are samples, and on the widest coefficient boxes for which no lane feeding a non-linear operation wraps where the inputs are coefficients (IDCT |c|<=2212, WHTs |c|<=2047; maximality proved by witnesses; the forward WHT is proved to stay in range on every encoder-reachable input via |FDCT coefficient| <= 2040). The full statement over all int16 blocks - which a valid bitstream can deliver to the decoder's IDCT and inverse WHT - is refuted by concrete blocks that replay on the real kernels and, through hand-assembled valid VP8 files, on webp.Decode (known findings). (3) Instrumentation: portable vs dispatched vs SSE2 vs AVX2 kernels on random/extreme/boundary/near-tie inputs, Encode/Decode digests of the normal build vs an overlay build without any architecture-specific file, and `go build ./...` for a GOOS/GOARCH matrix.",
    "level_note": "Not proof: the assembly text is not modelled instruction by instruction (register allocation, shuffles and transposes are abstracted to the data flow; it is tied to the lane models by running both on the same inputs every run); 'compiles for every GOOS/GOARCH' is checked by running the compiler on a matrix - the int-width theorem covers constant representability only; arm64 NEON code cannot be executed on the checking machine. Trusted: Coq kernel, extraction, OCaml glue, Go harness, translator (go/types).",
    "technique": "Rocq proof of lane-level SIMD algorithm models against portable kernel models + complete int-width constant check over translator output; extraction-based correspondence with assembly and portable Go kernels; differential execution of two builds; cross-compilation matrix",
    "notes": [
        "proof (int width): C13_int_constants_fit_32bit, C13_uint_constants_fit_32bit, C13_no_int_constant_out_of_range, C13_no_uint_constant_out_of_range, C13_int_constant_list_is_complete - complete finite check over Gen/IntWidth.v, regenerated each run",
        "proof (coefficient kernels, range-conditional): C13_lane16_idct_eq_fits (semantic no-wrap condition), C13_lane16_idct_eq (|c|<=2212), C13_lane16_wht_eq, C13_lane16_fwht_eq (|c|<=2047), C13_lane16_fwht_eq_on_encoder_input (all encoder-reachable inputs), C13_lane_quant_eq / C13_lane_quant_eq_encoder",
        "proof (sample kernels, all byte inputs): C13_lane32_fdct_eq, C13_lane16_tm_eq, C13_lane16_simple_filter_eq (thresh 0..32767), C13_lane16_add_green_eq, C13_lane16_sub_green_eq, C13_lane16_sse_eq (<=1024 samples), C13_lane16_tdisto_eq (weights from the source), C13_lane32_yuv_eq",
        "refuted (findings): C13_lane16_idct_differs_refuted, C13_idct_box_maximal, C13_lane16_wht_differs_refuted, C13_lane16_fwht_differs_refuted (the last one outside the encoder-reachable range) - witnesses replayed on the real kernels each run; hand-assembled valid VP8 files make webp.Decode differ between the amd64 and the portable build",
        "tie to source: C13_idct_constants_match, C13_yuv_constants_match (Gen/Consts.v), kWeightY (Gen/Tables.v)",
        "instrumentation only: kernel differential (portable / dispatched / sse2 / avx2, AVX2 switched off via hook), pipeline digests normal vs overlay build, build matrix (quick 5 targets, thorough 22), go vet for linux/386",
    ],
    "partial": [
        "The assembly routines themselves are not verified: the lane models describe the algorithms read from the .s files; model vs assembly is sampled correspondence (every run, dispatched implementation = AVX2 where present; the SSE2 routines are compared Go-side).",
        "DC/VE/HE predictors, SSE16x16 as a whole, TDisto16x16, the nz-count scan of QuantizeCoeffs, DequantCoeffs, the chroma diamond filter (identical Go code in both builds) and AVX2-vs-SSE2 equivalence are covered by differential execution only (no theorem).",
        "Decoder: every int16 block is reachable, so the IDCT / inverse WHT equivalences are necessarily conditional; the unconditional statement is refuted (known findings lane16-wrap:idct, lane16-wrap:wht, pipeline-diff:stream:lane16-wrap).",
        "Encoder: reachability is proved for the forward WHT only; that ITransform / TransformWHT / QuantizeCoeffs inputs produced by the encoder stay inside the proven ranges is argued (|FDCT coefficient| <= 2040, dequantisation error <= q/2) but not proved; kernel differences outside those ranges are counted, not reported.",
        "Compilation for every GOOS/GOARCH is checked by running `go build` on a matrix, not proved; the int-width theorem rules out only constant-overflow errors.",
    ],
    "trusted_base": ["modelled, not verified: internal/dsp/transforms_amd64.s + transforms_avx2_amd64.s (iTransformOne, transformWHT, fTransformWHT, fTransform), predict_amd64.s (tm16/tm8uv), filter_amd64.s + filter_avx2_amd64.s, lossless_amd64.s, ssim_amd64.s (sse4x4, tDisto4x4), upsample_amd64.s, internal/lossy/encode_quant_amd64.s as lane algorithms; transforms.go, predict_lossy.go, filter.go, lossless_dsp.go, ssim.go, yuv.go, encode_quant.go as portable semantics (clip tables modelled as clamps, uint32 masks as div/mod)",
                     "go/types with 64-bit sizes (values of constant expressions) and, for width-dependent constants, math / math/bits / strconv type-checked for GOARCH=386",
                     "go build -overlay (portable build), the Go cross-compilers"],
    "assumptions": ["PMULHW/PADDW/PSUBW/PSRAW/PACKUSWB/PACKSSDW/PSUBUSW/PMADDWD/PMULUDQ semantics as in the Intel SDM", "the check runs on an amd64 machine (assembly variants are executed natively); Go int is at least 32 bits"],
    "case_key": _case_key,
    "harness_timeout": {"quick": 900, "thorough": 7200},
}
