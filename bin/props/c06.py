"""C06 configuration for bin/check and bin/mkmanifest.py."""
def _case_key(case, kind):
    # case line: "recon <tag> <hex>"; cases encoded with a TargetSize / TargetPSNR search form their own class
    parts = case.split(" ")
    tag = parts[1] if len(parts) > 1 else ""
    if ":ts0:psnr0:" not in tag:
        return kind + ":ratecontrol"
    return kind


CFG = {
    "ready": True,
    "level_text": "Proof for the encoder data-path model + execution against the code. C06_no_drift: for every well-formed set of encoder choices (header, modes, quantised levels; skip only without levels) whose frame passes the size guards, the RFC 6386 specification decoder (Vp8Spec, Gallina, independent of the Go code) reconstructs from the emitted bytes, before the loop filter, exactly the encoder's reconstruction, with the source's dimensions, and at filter level 0 the decoded picture is that reconstruction. The proof goes through C06_enc_mb_eq_dec (one macroblock: raster levels, setupSegment step sizes, TransformWHT, ITransform onto the prediction, 4x4 blocks in order = decoder-side reconstruction of the recorded syntax), the raster induction, and C04_vp8_emit_decode / C04_bool_roundtrip (bytes of the Go BoolWriter model and assembleFrame layout parse back to the same syntax). On every run three model cases per encoder output tie the model to the Go encoder: the specification decoder's pre-filter planes = the encoder's planes (hook); the model emitter reproduces the encoder's bytes exactly from the choices recovered from them; the encoder reconstruction model on those choices = the encoder's planes. Go-side evaluation adds: Go decoder pre-filter planes = hook planes, webp.Decode = hook planes at FilterStrength 0, dimensions, hook bytes = webp.Encode bytes; serial, forced-parallel, rate-control and pooled wide-then-narrow families.",
    "level_note": "Proved about the Gallina encoder model (Vp8NoDrift.enc_frame), not about the Go text: how the Go encoder arrives at its choices (analysis, RD search, trellis, rate control, token buffer) is outside the model; that its emission and its reconstruction equal the model's for the choices it made is checked by execution on every generated case (reemit, encrecon), as is the whole property on the code (recon, Go-side comparisons). Trusted: Coq kernel, extraction, OCaml glue, Go harness, translator, the verif hook returning the encoder planes.",
    "technique": "Rocq proof of no-drift for an encoder data-path model (macroblock step + raster induction + frame emit/decode round trip); extraction-based execution: specification decoder, model emitter and model reconstruction against the Go encoder's bytes and planes (hook)",
    "notes": [
        "three model cases per encoder output: recon (specification decoder's pre-filter planes of the bytes = hook planes), reemit (Vp8SynParse.parse_syntax recovers header flags, modes and quantised levels from the bytes; Vp8FrameRT.emit_key_frame = syntax emitter + Go BoolWriter model + assembleFrame layout must reproduce the encoder's bytes exactly), encrecon (Vp8NoDrift.enc_frame on the recovered choices = hook planes). Quick tier: every stream; thorough tier: reemit/encrecon on every third stream.",
        "generators: pictures x options (serial and forced-parallel), a rate-control family (TargetSize / TargetPSNR x Pass 1,2,3,4,6,10, targets placed around the picture's own size so the search converges early in some runs and runs out of passes in others), and wide-then-narrow encode pairs through the pooled row-parallel state (one goroutine, GC held off, textured content, Method >= 3, >= 4 macroblock rows).",
        "the four *_partial theorems (C06_itransform_eq_transform_partial, C06_enc_dequant_eq_dec_partial, C06_skip_sound_partial, C06_level_range_partial) are the kernel lemmas used by C06_enc_mb_eq_dec / C06_no_drift; C06_no_drift_nonvacuous exhibits a frame meeting the hypotheses.",
    ],
    "partial": [
        "C06_no_drift is a theorem about the encoder data-path MODEL. Not proved of the Go code and covered by execution instead: that the encoder's token recording / token-buffer replay equals the model emitter (reemit cases), that its context fill for prediction equals mk_edges of its own reconstruction and that the serial and parallel frame loops reconstruct alike (encrecon and recon cases, pooled-pair family), and that its outputs satisfy the hypotheses wf_frame_syn / choices_ok (levels within +-2114, skip only without levels, probabilities bytes).",
    ],
    "trusted_base": ["modelled, not verified: dsp.iTransformOne / TransformWHT, lossy.setupSegment / writeQuantParams / reconstructMB / encodeI4Residuals (reconstruction), emitPartition0 / token emission / assembleFrame (emission), bitio.BoolWriter; the encoder's analysis, RD search, trellis, rate control and token buffer are not modelled (their results are the choices)"],
    "assumptions": ["the hook's configuration code (verifLossyConfig) is kept identical to encode.go by the translator (C20's obligation); the hook's bytes are compared with webp.Encode's on every case"],
    "proof_timeout": 2400,
    "case_key": _case_key,
}
