"""C06 configuration for bin/check and bin/mkmanifest.py."""
def _case_key(case, kind):
    # case line: "recon <tag> <hex>"; cases encoded with a TargetSize / TargetPSNR search form their own class
    parts = case.split(" ")
    tag = parts[1] if len(parts) > 1 else ""
    if ":ts0:psnr0:" not in tag:
        return kind + ":ratecontrol"
    return kind


CFG = {
    "ready": True,
    "level_text": "Proof of no-drift for the encoder data-path model (C06_no_drift: decode_unfiltered(emit s) = encoder reconstruction, via the frame emit/decode round trip C04_vp8_emit_decode and the macroblock step C06_enc_mb_eq_dec) + executable specification: on every run the encoder's own reconstruction planes (verif hook, serial and parallel encoder paths) are compared bit-exactly with what the extracted RFC 6386 specification decoder (Vp8Spec.decode_unfiltered, written in Gallina, independent of the Go code) reconstructs from the emitted bytes before the loop filter, with the Go decoder's pre-filter planes, and - at FilterStrength 0 - with webp.Decode's planes; dimensions are compared with the source. Coq theorems (all inputs) link the two reconstruction paths at kernel level: encoder inverse transform = decoder inverse DCT + prediction, encoder quantiser step sizes = decoder dequantisation factors for every index and delta, skipped macroblocks reconstruct the prediction, every coded level has exactly one token.",
    "level_note": "The whole-frame statement no_drift (Vp8EncPath.no_drift_statement) is NOT proved: there is no Gallina model of the encoder's frame loop (mode choice, token recording, context export); it is evaluated by execution on generated pictures x options. Trusted: Coq kernel, extraction, OCaml glue, Go harness, translator, the verif hook returning the encoder planes.",
    "technique": "executable Gallina specification decoder run on the encoder's output vs the encoder's reconstruction (hook); Rocq proofs of the kernel-level links (finite complete sweeps where tables are involved)",
    "notes": [
        "three model cases per encoder output: recon (specification decoder's pre-filter planes of the bytes = hook planes), reemit (Vp8SynParse.parse_syntax recovers header flags, modes and quantised levels from the bytes; Vp8FrameRT.emit_key_frame = syntax emitter + Go BoolWriter model + assembleFrame layout must reproduce the encoder's bytes exactly: ties the emission half of the encoder model to the code), encrecon (Vp8NoDrift.enc_frame, the encoder-side reconstruction model, on the recovered choices = hook planes: ties the reconstruction half).",
        "generators: pictures x options (serial and forced-parallel), a rate-control family (TargetSize / TargetPSNR x Pass 1,2,3,4,6,10, targets placed around the picture's own size so the search converges early in some runs and runs out of passes in others), and wide-then-narrow encode pairs through the pooled row-parallel state (one goroutine, GC held off, textured content, Method >= 3, >= 4 macroblock rows).",
    ],
    "partial": [
        "C06_no_drift is proved for the encoder data-path MODEL (Vp8NoDrift.enc_frame: choices = header, modes, quantised levels; emission through Vp8FrameRT.emit_key_frame = syntax emitter + Go BoolWriter model + assembleFrame layout; reconstruction by enc_recon_mb in raster order from the encoder's own reconstructed neighbours). What the model abstracts and execution covers instead: how the Go encoder arrives at its choices (analysis, RD search, trellis, rate control), that its token recording equals the model emitter (token_record_eq_emit), that its context fill for prediction equals mk_edges of its own reconstruction (the C06-te7 class), serial_eq_parallel_recon, and the hypotheses wf_frame_syn/choices_ok themselves (levels within +-2114, skip only without levels) are not proved of the Go encoder. The four *_partial theorems are the kernel lemmas the proof uses.",
    ],
    "trusted_base": ["modelled, not verified: dsp.iTransformOne, lossy.setupSegment / writeQuantParams; the encoder's frame loop, RD search and token recording are not modelled (validated per run through the hook planes)"],
    "assumptions": ["the hook's configuration code (verifLossyConfig) is kept identical to encode.go by the translator (C20's obligation); the hook's bytes are compared with webp.Encode's on every case"],
    "proof_timeout": 2400,
    "case_key": _case_key,
}
