"""C06 configuration for bin/check and bin/mkmanifest.py."""
def _case_key(case, kind):
    # case line: "recon <tag> <hex>"; cases encoded with a TargetSize / TargetPSNR search form their own class
    parts = case.split(" ")
    tag = parts[1] if len(parts) > 1 else ""
    if ":ts0:psnr0:" not in tag:
        return kind + ":ratecontrol"
    return kind


CFG = {
    "ready": True,
    "level_text": "Executable specification + proof of the kernel links: on every run the encoder's own reconstruction planes (verif hook, serial and parallel encoder paths) are compared bit-exactly with what the extracted RFC 6386 specification decoder (Vp8Spec.decode_unfiltered, written in Gallina, independent of the Go code) reconstructs from the emitted bytes before the loop filter, with the Go decoder's pre-filter planes, and - at FilterStrength 0 - with webp.Decode's planes; dimensions are compared with the source. Coq theorems (all inputs) link the two reconstruction paths at kernel level: encoder inverse transform = decoder inverse DCT + prediction, encoder quantiser step sizes = decoder dequantisation factors for every index and delta, skipped macroblocks reconstruct the prediction, every coded level has exactly one token.",
    "level_note": "The whole-frame statement no_drift (Vp8EncPath.no_drift_statement) is NOT proved: there is no Gallina model of the encoder's frame loop (mode choice, token recording, context export); it is evaluated by execution on generated pictures x options. Trusted: Coq kernel, extraction, OCaml glue, Go harness, translator, the verif hook returning the encoder planes.",
    "technique": "executable Gallina specification decoder run on the encoder's output vs the encoder's reconstruction (hook); Rocq proofs of the kernel-level links (finite complete sweeps where tables are involved)",
    "notes": [
        "generators: pictures x options (serial and forced-parallel), a rate-control family (TargetSize / TargetPSNR x Pass 1,2,3,4,6,10, targets placed around the picture's own size so the search converges early in some runs and runs out of passes in others), and wide-then-narrow encode pairs through the pooled row-parallel state (one goroutine, GC held off, textured content, Method >= 3, >= 4 macroblock rows).",
    ],
    "partial": [
        "no_drift (for all images, options and encoder choices: decode_unfiltered(bytes) = encoder reconstruction) is stated as Vp8EncPath.no_drift_statement and not proved; the four theorems are the kernel-level lemmas such a proof would use (hence the _partial suffix); serial_eq_parallel_recon and token_record_eq_emit are not modelled, they are covered by execution (forced serial and forced parallel runs both compared with the specification decoder)",
    ],
    "trusted_base": ["modelled, not verified: dsp.iTransformOne, lossy.setupSegment / writeQuantParams; the encoder's frame loop, RD search and token recording are not modelled (validated per run through the hook planes)"],
    "assumptions": ["the hook's configuration code (verifLossyConfig) is kept identical to encode.go by the translator (C20's obligation); the hook's bytes are compared with webp.Encode's on every case"],
    "proof_timeout": 2400,
    "case_key": _case_key,
}
