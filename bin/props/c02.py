"""C02 configuration for bin/check and bin/mkmanifest.py."""
CFG = {
   "ready": True,
   "level_text": "Proof + independent implementation: Coq theorems show that the fixed-width fields the encoder writes (VP8 frame tag with the 19-bit partition-0 length, 14-bit dimensions, the 24-bit token-partition size table; the VP8L 5-byte header) are read back exactly by a reader following the format, for all dimensions and all partition contents, and that Encode's size guard refuses exactly the sizes the fields cannot hold (the pre-fix truncation is a theorem about the pinned definition). Every file Encode reports as written is then analysed on each run by the extracted specification models — the RIFF/WebP grammar written from the container spec, the VP8L specification decoder, the RFC 6386 VP8 specification decoder, the ALPH codec model with the VP8L specification decoder inside — and their verdict (well-formed, declared dimensions and alpha, every lossless pixel, every Y/U/V sample after the loop filter, every alpha value) must equal what webp.Decode and the source image say; a Go-side walker independently checks sizes, padding, chunk order, VP8X flags and canvas against the options.",
   "level_note": "Trusted: Coq kernel, extraction, OCaml glue, Go harness. RIFF writer well-formedness theorems are stated under C15 (WriterModel), VP8L stream theorems under C03, ALPH under C07, VP8 key-frame decoding under C04; The encoder's heuristics are not modelled: that each sampled output conforms is evaluated, not proved.",
   "technique": "Rocq theorems on header-field round trips and size guards; extracted independent format implementation (grammar + VP8L spec decoder + ALPH model) run against every encoder output",
   "notes": [
     "theorems: C02_vp8_frame_fields_roundtrip, C02_emit_frame_guard_exact, C02_emit_frame_total, C02_vp8l_header_roundtrip, C02_limits_match_source; C02_pinned_emit_truncates_part0_refuted documents the defect fixed by ca1de97",
     "cases: 'file <hex>' analysed by ConformFile.analyse (S = specification side); 'hdr' cases compare emit_frame's header/size-table bytes with the layout the Go decoder reads",
   ],
   "partial": ["that every output of the (unmodelled) encoder heuristics conforms is evaluated on the generated option/image product each run, not proved; the RIFF writer's well-formedness theorem lives in C15 (WriterModel)"],
   "trusted_base": ["modelled, not verified: internal/lossy/encode_syntax.go emitFrame/assembleFrame; the RIFF grammar, VP8L spec decoder and ALPH model are independent specifications, not models of /repo code"],
   "assumptions": [],
}
