"""C05 configuration for bin/check and bin/mkmanifest.py."""
CFG = {
   "ready": False,
   "level_text": "TODO",
   "level_note": "TODO",
   "technique": "TODO",
   "notes": [],
 }
