"""C05 configuration for bin/check and bin/mkmanifest.py."""
CFG = {
   "ready": True,
   "level_text": "Proof for the demuxer (mux/demux.go + mux/chunk.go, the entry point of mux.NewDemuxer and of the whole animation package): for every byte string the model of the current code neither panics nor exhausts its fuel (every loop iteration consumes >= 8 input bytes), Frame(i)/GetChunk(id) are total for every index/id, and a successful result holds only sub-slices of the input, 1..maxFrames frames with non-negative offsets and metadata <= maxMetadataSize (Coq theorem C05_demux_total_and_well_formed, by invariants over the chunk loops); the pinned code is proved to panic on a 16-byte witness (C05_demux_panics_refuted, fixed by 078db33) and the fix is proved conservative. The model is tied to the code on every run by extraction + differential execution on 10 000 malformed inputs (outcome class and every accessor). For the codec loops (VP8/VP8L/ALPH decoders, compositing) the check is a TEST: the same malformed inputs through all 8 entry points under recover(), a wall-clock cap and buffer/bounds checks.",
   "level_note": "Trusted: Coq kernel, extraction (ExtrOcamlBasic), OCaml glue, Go harness, translator. Not proved: anything about internal/container.Parser (other builder), the VP8/VP8L/ALPH decoders and animation compositing on malformed input (covered by the malformed-stream run only), memory use (inputs declaring > 2^24 pixels skip the pixel-decoding entry points).",
   "technique": "Rocq proof of totality / in-bounds results of the demuxer model by loop invariants with explicit Panic outcome and fuel; extraction-based correspondence on malformed streams; malformed-stream test of all decoding entry points",
   "notes": [
     "theorems: C05_demux_total_and_well_formed (full, current code), C05_demux_total, C05_demux_fuel_sufficient, C05_frame_total, C05_frame_ok_iff_in_range, C05_get_chunk_total, C05_get_chunk_in_bounds, C05_patch_is_conservative (full); C05_demux_panics_refuted (pinned code, witness RIFF 02000000 WEBP 'VP8 ')",
     "correspondence: mux.NewDemuxer + GetFeatures/NumFrames/Frame(-1..n)/GetChunk(10 ids)/LoopCount/BackgroundColor/internal chunk list vs extracted DemuxModel.parse true, on every generated input",
     "generator: random bytes; RIFF header + random; bit flips; byte flips; RIFF-size edits; chunk-size edits (0,1,3,4,7,8,2^31,2^32-1,len,+-1); truncations; chunk drop/duplicate/retag; splices; header-field edits; verbatim seeds — over lossy, lossless, lossy+alpha, lossless+alpha, VP8X+metadata and animated (2..5 frames, alpha frames) files",
     "entry points run on every input: webp.GetFeatures, DecodeConfig, Decode, image.Decode, mux.NewDemuxer(+Frame, GetChunk, iterator), animation.DecodeBytes, DecodeFrames+NewAnimDecoder+NextFrame to the end, DecodeFramesParallel",
   ],
   "partial": [
     "C05 as stated covers Decode/DecodeConfig/GetFeatures/image.Decode and the codec loops; for those nothing is proved here (no model of container.Parser or of the decoders in this area): they are exercised by the malformed-stream run only (a test).",
     "time/memory proportionality is not proved; the wall-clock cap (20 s per call) and the skip of declared areas > 2^24 pixels are test-side guards.",
   ],
   "trusted_base": ["modelled, not verified: mux/demux.go parse/parseSimpleVP8/parseSimpleVP8L/parseExtended/parseANIM/parseANMF/parseSingleExtendedFrame/Frame/GetChunk, mux/chunk.go ReadChunkHeader/ReadChunk (loops on the remaining suffix with fuel = 1 + its length)"],
   "assumptions": ["Go int is 64-bit; len(data) < 2^63"],
 }
