"""C09 configuration for bin/check and bin/mkmanifest.py."""
CFG = {
   "ready": True,
   "level_text": "Proof: for every canvas size, frame list, offsets over the whole int64 range, blend x dispose, HasAlpha flags and pixel alphas, the AnimDecoder model (key-frame shortcut, dual buffers, Go rectangle arithmetic with overflow clamp, uint32 blend) equals the container-specification model (Coq theorem C09_animdec_refines_spec, by an invariant over frame histories); the blend arithmetic is proved overflow-free and equal to the reference formula for all pixel pairs. The model is tied to the code on every run by extraction + differential execution against AnimDecoder.NextFrame (thousands of generated animations incl. a blend-kernel sweep) and by a regenerated constant obligation.",
   "level_note": "Trusted: Coq kernel, extraction (ExtrOcamlBasic), OCaml glue, Go harness, translator. The Go loops are modelled as in-place nested loops (AnimDecLoops.v) and proved equal to the pointwise definitions; the tie between model and code is sampled correspondence, not a proof about the Go text. Reset-replay and snapshot immutability are evaluated on the implementation only (pure in the model).",
   "technique": "Rocq proof of refinement (implementation model = specification model) by invariant over frame histories; extraction-based correspondence with the Go decoder",
   "notes": [
     "theorem C09_animdec_refines_spec: for all canvas sizes, frame lists, offsets in int64, blend x dispose, pixel alphas: AnimDecoder model = container-spec model (no hypothesis on HasAlpha flags after the fix: commit 2865694)",
     "correspondence: Go AnimDecoder.NextFrame snapshots vs extracted impl_run; direct evaluation: Go snapshots vs extracted spec_run; Reset replay and snapshot immutability evaluated Go-side",
   ],
   "trusted_base": ["modelled, not verified: animation/animation.go NextFrame/isKeyFrame/compositeFrame/applyDispose/fillRect/alphaBlendNRGBA, frame.go Bounds; compositeFrame/fillRect loops modelled as nested in-place loops and proved equal to the pointwise model"],
   "assumptions": ["Go int is 64-bit two's complement (wrap64); image.Rectangle.Intersect/Rect semantics as in Go 1.24 stdlib"],
 }
