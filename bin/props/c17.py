"""C17 configuration for bin/check and bin/mkmanifest.py."""
CFG = {
   "ready": True,
   "level_text": "Proof (container/glue layer) + exhaustive fault enumeration (codec layers): Coq theorem C17_prefix_all_or_nothing shows, for every byte string the repaired container parser accepts as a still and every proper prefix, that the parser fails or returns the identical result (same features, same frame payload and alpha bytes), hence GetFeatures, DecodeConfig and Decode (for every codec) fail or agree with the complete file; C17_prefix_classified shows that on the pinned parser the only deviation is success with an empty frame list; the parser model is tied to internal/container on every run by extraction + differential execution on every prefix of every generated file. The codecs' behaviour on truncated bitstreams is a parameter of the model and is decided by exhaustive enumeration on the real code: every prefix length of every generated still file through Decode/DecodeConfig/GetFeatures.",
   "level_note": "Trusted: Coq kernel, extraction (ExtrOcamlBasic), OCaml glue, Go harness, translator. The pixel codecs (VP8 bool decoder, VP8L bit reader, ALPH) are not modelled: 'a truncated bitstream is rejected or decodes identically' is evaluated exhaustively per generated file (all cut points), not proved. The model is tied to the Go code by sampled correspondence, not by a proof about the Go text.",
   "technique": "Rocq proof of prefix-stability of the container parser model (induction over the chunk loops, both code variants) + exhaustive prefix enumeration on the implementation; extraction-based correspondence with container.NewParser",
   "notes": [
     "theorems: C17_parser_total (no panic / no fuel exhaustion on any byte string), C17_prefix_all_or_nothing, C17_get_features_prefix, C17_decode_config_prefix, C17_decode_prefix (repaired parser, all inputs, all codecs); C17_prefix_classified (both variants); C17_features_prefix_refuted / C17_config_prefix_refuted (pinned parser, vm_compute witnesses replayed by the harness)",
     "'still' is stated as: the parser returned from parseSingleImage/parseExtSingleImage (Kind = KStill), i.e. a top-level image chunk was found; animated files (a cut between ANMF chunks yields fewer frames) are outside the property",
   ],
   "partial": [
     "codec layers (lossy.DecodeFrame, lossless.DecodeVP8L, lossy.DecodeAlpha) are parameters of the Coq model; their all-or-nothing behaviour on truncated payloads is covered only by the exhaustive prefix enumeration in harness/c17 (every cut point of every generated file), not by proof",
   ],
   "trusted_base": ["modelled, not verified: internal/container/parser.go + riff.go (all functions), webp.go DecodeConfig/GetFeatures/decodeBytes/decodeFrame/decodeLossy control flow"],
   "assumptions": ["Go int is 64-bit (int(uint64) conversions in parser.go do not truncate)"],
   "model_timeout": 1800,
 }
