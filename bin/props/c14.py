"""C14 configuration for bin/check and bin/mkmanifest.py."""

def _case_key(case, kind):
    # "rt <class> ..." lines carry the class of the final muxer state
    t = case.split(" ", 2)
    if kind == "spec-mismatch" and len(t) >= 2 and t[0] == "rt":
        return t[1]
    return kind

CFG = {
   "ready": True,
   "case_key": _case_key,
   "level_text": "Partial proof + full-coverage correspondence. Proved in Coq over faithful models of mux/mux.go and mux/demux.go: the simple layout round trip for every muxer state (well-formed by an independent container grammar, demuxes to exactly the bitstream put in: C14_simple_layout_roundtrip_partial), the chunk write/read round trip with padding for every payload, chunk/ANMF size formulas = bytes written, VP8X flag derivation, still-vs-animated and simple-vs-extended choice; the full statement is refuted for the pinned muxer by five kernel-evaluated witnesses (the defects fixed by bc01570 and 2c1f6ba) and for the current muxer by the remaining known finding (explicit canvas != picture on a still image). The extended/animated round trip is not proved in general: it is checked on every run on 2 500 generated call histories by the extracted models (Go Assemble bytes = model bytes exactly; Go demuxer = model demuxer; round trip = specification view + RiffGrammar.wf) and by a Go-only evaluation with an independent shadow state and RIFF walker, GetFeatures/Decode agreement, and rejection checks.",
   "level_note": "Trusted: Coq kernel, extraction (ExtrOcamlBasic), OCaml glue, Go harness, translator. The full round-trip theorem for VP8X / animated files (C14_full_statement) is a Definition, not a theorem. container.Parser is compared only Go-side through GetFeatures/Decode.",
   "technique": "Rocq models of muxer state machine + demuxer with explicit Panic; declarative RIFF grammar from the container spec; round-trip lemmas and simple-layout theorem; _refuted witnesses by vm_compute; extraction-based correspondence over random call histories",
   "notes": [
     "theorems (full): C14_chunk_write_read_roundtrip, C14_chunk_total_size_correct, C14_anmf_size_correct, C14_flags_derivation, C14_still_vs_animated_choice, C14_simple_layout_iff, C14_current_handles_the_pinned_witnesses, C14_limits_match_source; (partial) C14_simple_layout_roundtrip_partial; (refuted) C14_pinned_still_alpha_refuted, C14_pinned_negative_offset_refuted, C14_pinned_big_offset_refuted, C14_pinned_still_offset_refuted, C14_current_still_canvas_refuted",
     "view decisions: offsets rounded down to even; for a still picture blend/dispose/loop/background (which exist only in ANMF/ANIM) are not part of the view; empty-but-non-nil metadata round-trips as an empty chunk (checked); AddChunk with an id other than ICCP/EXIF/XMP returns nil and stores nothing (modelled; not counted as metadata)",
     "generator: clean animated (1..5 frames, even/odd offsets, explicit/derived canvas, duration clamps), clean still, boundary histories (negative / >= 2^24 / >= 2^25 offsets, still+offset, still+canvas, canvas limits, frame outside canvas), wild histories (<= 12 calls incl. garbage frames, nil/empty blobs, extreme ints) over a pool of >= 24 real bitstreams (lossy, lossless, +alpha, ALPH-prefixed; both parities of bitstream and alpha length)",
   ],
   "partial": [
     "C14_full_statement (round trip for every accepted history, VP8X and animated layouts included) is not proved; proved: simple layout + the lemmas the general proof needs (chunk round trip, size formulas, flags). The gap is covered by the per-run correspondence and direct evaluation only.",
     "container.Parser agreement is evaluated Go-side (GetFeatures/Decode), not modelled here (other builder's Parser model).",
     "known finding still-canvas (SetCanvasSize != picture size on a still image) makes the full statement false for the current code (C14_current_still_canvas_refuted); kept because mux_test.go pins the acceptance.",
   ],
   "trusted_base": ["modelled, not verified: mux/mux.go (all setters, AddFrame, isAnimated, needsVP8X, hasAlphaChunk, validate, canvasSize, frameDimensions, splitAlphaAndBitstream, hasAlpha, detectBitstreamType, chunkTotalSize, frameSubChunksSize, writeDataChunk, putLE24, assembleSimple, assembleExtended, writeANMFChunk), mux/demux.go, mux/chunk.go"],
   "assumptions": ["Go int is 64-bit two's complement (wrap64); every blob shorter than 2^30 bytes"],
 }
