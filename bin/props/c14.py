"""C14 configuration for bin/check and bin/mkmanifest.py."""

def _case_key(case, kind):
    # "rt <class> ..." lines carry the class of the final muxer state
    t = case.split(" ", 2)
    if kind == "spec-mismatch" and len(t) >= 2 and t[0] == "rt":
        return t[1]
    return kind

CFG = {
   "ready": False,
   "case_key": _case_key,
   "level_text": "TODO",
   "level_note": "TODO",
   "technique": "TODO",
   "notes": [],
 }
