"""C01 configuration for bin/check and bin/mkmanifest.py."""


def case_key(case, kind):
    f = case.split(" ")
    if f and f[0] == "unp":
        return kind + ":rgba-fast-path-unpremultiply"
    if f and f[0] == "imp":
        return kind + ":transparent-cleanup"
    if len(f) >= 3 and f[0] == "dec" and "packed-index-then-transform" in f[1]:
        return kind + ":packed-colour-index-inverse-in-place"
    return kind


CFG = {
    "ready": True,
    "runner_in_harness": True,
    "case_key": case_key,
    "level_text": "Proof of the data path + direct evaluation of the whole round trip. Proved for all inputs: the decoder's inverse transforms, applied in reverse order with the recorded (possibly pixel-packed) widths, undo the encoder's forward transform chain for every transform list, tile size, tile data and palette (C01_inverse_chain, resting on the four per-transform round-trip theorems: all 14 predictors with the edge rules, all cross-colour multipliers, subtract-green, all four index packings with ragged widths); the repaired *image.RGBA un-premultiply equals color.NRGBAModel for every valid (channel, alpha) pair while the pinned formula differs for exactly 15193 pairs; the transparent clean-up changes only alpha-0 pixels and nothing under Exact. The encoder's heuristics are not modelled: every run re-derives what the real encoder emitted by decoding its bytes with the extracted specification decoder (written from the format specification) and requires Go Decode = specification decode = source pixels, over sizes x content classes x alpha patterns x eight source types x Quality x Method x Exact x metadata subsets, with counters of the transform sets / packings / cache bits actually emitted.",
    "level_note": "The theorem lossless_roundtrip of the design (webp_decode (encode img o c) = expected for every valid choice c) is not proved as one statement: the entropy layer (emit/decode of tokens and prefix codes) is covered by C03's emitter/decoder evaluation and example, not by a forall proof; the encoder's choices are validated per run, not for unsampled inputs. Trusted: Coq kernel, extraction, OCaml glue, Go harness (generators, expected-pixel computation through color.NRGBAModel), translator.",
    "technique": "Rocq: transform-chain inversion theorem, complete vm_compute sweeps for the pixel-import arithmetic, extracted specification decoder as the reference for the Go round trip",
    "notes": [
        "direct evaluation: webp.Encode -> webp.Decode vs the source read through color.NRGBAModel (alpha-0 pixels -> transparent black unless Exact)",
        "correspondence: extracted Vp8lSpec.decode of the Go-encoded payload vs Go Decode (both I and S are the specification decoder; there is no separate implementation model of the encoder)",
        "unp cases: all 32896 valid premultiplied (channel, alpha) pairs through the *image.RGBA fast path (streaming and writeRIFF paths) vs the model of the repaired fast path (I) and the colour-model formula (S)",
        "defects found on the pinned tree, fixed in /repo: 56944c7 (in-place packed colour-index inverse: <=16 colours, Method>=5, Quality>=75 decoded wrong) and 83481fc (RGBA fast path un-premultiply off by one for 15193 pairs)",
    ],
    "partial": [
        "lossless_roundtrip (whole encoder with choices + validity predicate) is not stated as a single theorem; proved: C01_inverse_chain (transform level), pixel-import and clean-up theorems; the entropy layer is evaluated, see C03",
    ],
    "trusted_base": [
        "modelled, not verified: encode.go encodeLossless/encodeLosslessToWriter (pixel import fast paths, cleanupTransparentAreaLossless), internal/lossless encoder data path (only through its output), decoder as in C03",
    ],
    "assumptions": ["expected pixels are defined by Go's color.NRGBAModel.Convert(img.At(x, y)) (Go 1.24 image/color)"],
    "harness_timeout": {"quick": 900, "thorough": 10800},
}
