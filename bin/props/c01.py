"""C01 configuration for bin/check and bin/mkmanifest.py."""


def case_key(case, kind):
    f = case.split(" ")
    if f and f[0] == "unp":
        return kind + ":rgba-fast-path-unpremultiply"
    if f and f[0] == "imp":
        return kind + ":transparent-cleanup"
    if len(f) >= 3 and f[0] == "dec" and "packed-index-then-transform" in f[1]:
        return kind + ":packed-colour-index-inverse-in-place"
    return kind


CFG = {
    "ready": True,
    "runner_in_harness": True,
    "case_key": case_key,
    "level_text": "Proof of the round trip at model level + direct evaluation on the Go code (Properties/C01.v, 16 theorems, no axioms). C01_lossless_roundtrip: for every source image, option set and every valid set of encoder choices (transform list with data, how each sub-image, the meta prefix image and the residual image are coded: cache bits, code plans, tokens — the heuristics are choices), the specification decoder applied to the bytes the model encoder emits returns the source pixels, alpha-0 pixels as transparent black unless Exact (C01_lossless_roundtrip_pixels states that only permitted difference; C01_roundtrip_example shows validity is satisfiable). It rests on C03's emit_decode, on C01_inverse_chain (the decoder's inverse transforms in reverse order with the recorded, possibly pixel-packed widths undo the encoder's forward chain for every transform list, tile size, tile data and palette) with the four per-transform round-trip theorems, and on the clean-up lemmas. Pixel import: the repaired *image.RGBA un-premultiply equals color.NRGBAModel for every valid (channel, alpha) pair, the pinned formula differs for exactly 15193 pairs (refuted). Every run: Go Encode -> Decode must return the source read through color.NRGBAModel over sizes x content classes x alpha patterns x 19 source kinds (all standard-library image types incl. sub-images with offset bounds and custom images) x Quality x Method x Exact x metadata subsets; the encoder's actual bytes are decoded by the extracted specification decoder, the plan they are the emission of is recovered, checked by the sound checker wf_planb and re-emitted byte-exactly, so the proved chain applies to each run's bytes; a complete sweep of all 32896 valid (channel, alpha) pairs goes through both RGBA fast paths.",
    "level_note": "What C01_lossless_roundtrip leaves open: valid is a Prop (its stream part has the sound boolean checker wf_planb); that the Go encoder's data path (residual computation, palette packing, token emission) equals the model's forward transforms for its own choices is not proved — per run the encoder's residual image is shown to equal the model's forward chain on the source, the encoder's bytes are shown to be the model emitter's output for a recovered well-formed plan and specification decode = Go decode = source pixels; the RIFF container is outside the statement. Trusted: Coq kernel, extraction, OCaml glue, Go harness (generators, expected pixels through color.NRGBAModel), translator.",
    "technique": "Rocq: transform-chain inversion theorem, complete vm_compute sweeps for the pixel-import arithmetic, extracted specification decoder as the reference for the Go round trip",
    "notes": [
        "direct evaluation: webp.Encode -> webp.Decode vs the source read through color.NRGBAModel (alpha-0 pixels -> transparent black unless Exact)",
        "correspondence: extracted Vp8lSpec.decode of the Go-encoded payload vs Go Decode (both I and S are the specification decoder; there is no separate implementation model of the encoder)",
        "encoder-choices: the real encoder's choices are recovered from its bytes (extracted Vp8lTrace.trace_decode), checked with the sound boolean checker wf_planb and re-emitted byte-exactly by the model emitter; when both hold the proved emit_decode / lossless_roundtrip chain applies to that run's actual bytes (counter encoder-choices:valid); this is the per-run validation of the nondeterministic model encoder",
        "source kinds: NRGBA, RGBA, Gray, Paletted, NRGBA64, NRGBA/RGBA sub-images, generic wrapper, and sub-images with Bounds().Min != (0,0) of Gray, Gray16, Alpha, Alpha16, CMYK, NRGBA64, RGBA64, Paletted, YCbCr, NYCbCrA plus a custom image.Image with offset bounds, crossed deterministically with {no metadata, ICC, EXIF, XMP, all} x Exact (both encoder paths)",
        "encoder-data-path: for every round trip up to 40x40 the model's forward transform chain (Vp8lImport.forward_chain with the transforms and tile data / palette recovered from the encoder's stream) is applied to the cleaned source pixels and compared pixel by pixel with the residual image the encoder's tokens denote (counter encoder-data-path:forward-chain(source)=residual-image; a difference is counted as encoder-data-path:DIFFERS-..., the round-trip itself stays the violation criterion)",
        "domain audit: a violation is reported only when Decode fails on, or returns pixels / dimensions other than the source's from, the bytes Encode wrote for an in-range image and option set; per pixel the accepted outcomes are the source pixel, or transparent black when the source alpha is 0 and Exact is off (the statement says 'may', so an encoder that keeps hidden colours without Exact is accepted too; counters observation:alpha-0-*). Demoted to observation:* counters: encode-error (an Encode error writes no bytes: C20/C02), no-vp8l-chunk (file layout: C02), sem-of-recovered-plan-differs-from-decode (decoder vs format: C03). The dec cases carry only the implementation-model field (specification decoder = model of the decoder half); the imp cases print the canonical accepted outcome",
        "far-match pictures (Go Encode -> Go Decode only, no specification decode): more than 2^20 pixels whose tail repeats the pixels P positions earlier, P around the LZ77 window limit 2^20 - 120; quick: 1024x1030 with P = 2^20-60 (Q100, M4) and 2^20-119 (Q76, M2), 200-colour palette content; thorough: P in {2^20-121..2^20+1} x palette/true colour and 16383x70 / 70x16383 pictures",
        "obligations over regenerated constants: C01_window_distance_symbol_in_alphabet (every distance <= lossless.windowSize is written as code 120+distance whose prefix symbol is < NumDistanceCodes), C01_max_length_symbol_in_alphabet (every length <= lossless.maxLength has a symbol < NumLengthCodes)",
        "the window and maximum match length of the obligations come from their usage sites (GetWindowSizeForHashChain's return at the highest quality, the mask in (*HashChain).GetLength; Gen/Vp8lRoles.v), not from identifier names",
        "unp cases: all 32896 valid premultiplied (channel, alpha) pairs through the *image.RGBA fast path (streaming and writeRIFF paths) vs the model of the repaired fast path (I) and the colour-model formula (S)",
        "defects found on the pinned tree, fixed in /repo: 56944c7 (in-place packed colour-index inverse: <=16 colours, Method>=5, Quality>=75 decoded wrong) and 83481fc (RGBA fast path un-premultiply off by one for 15193 pairs)",
    ],
    "partial": [
        "C01_lossless_roundtrip is at model level: the model encoder's forward transforms are the specification's forward transforms with the real encoder's decisions as choices; that the Go encoder's data path (residual computation, palette packing, token emission) equals the model for its own choices is not proved ; per run the encoder's bytes are shown to be the model emitter's output for a recovered well-formed plan (byte-exact), and specification decode of those bytes = Go decode = source pixels; the RIFF container is outside the statement; valid is a Prop (its stream part has the sound boolean checker wf_planb)",
    ],
    "trusted_base": [
        "modelled, not verified: encode.go encodeLossless/encodeLosslessToWriter (pixel import fast paths, cleanupTransparentAreaLossless), internal/lossless encoder data path (only through its output), decoder as in C03",
    ],
    "assumptions": ["expected pixels are defined by Go's color.NRGBAModel.Convert(img.At(x, y)) (Go 1.24 image/color)"],
    "harness_timeout": {"quick": 900, "thorough": 10800},
}
