"""C04 configuration for bin/check and bin/mkmanifest.py."""


def _case_key(case, kind):
    # case line: "dec <tag> <hex>"; the second field of a foreign-stream tag names the deviation
    # classes present in the stream ("plain" = none), e.g. "foreign:segnoupd+simd16:..." gives
    # the key "spec-mismatch:foreign:segnoupd+simd16"; "portable:foreign:zeromb:..." (same
    # stream through the pure-Go kernels) gives "spec-mismatch:portable:zeromb".
    parts = case.split(" ")
    if parts[0] != "dec":
        return "%s:kernel:%s" % (kind, parts[0])
    f = (parts[1] if len(parts) > 1 else "").split(":")
    if f[0] == "foreign" and len(f) > 1:
        return "%s:foreign:%s" % (kind, f[1])
    if f[0] == "portable" and len(f) > 2 and f[1] == "foreign":
        return "%s:portable:%s" % (kind, f[2])
    return "%s:%s" % (kind, f[0])


CFG = {
    "ready": True,
    "level_text": "Proof + executable specification: an independent VP8 key-frame decoder written in Gallina from RFC 6386 (boolean decoder, headers, mode trees with contexts, token decoding, dequantisation with 16-bit storage, inverse WHT/DCT, all intra predictors with the border rules, loop filter incl. per-segment/delta levels) is extracted and compared bit-exactly (planes before and after the loop filter) with the Go decoder on the package's own encoder outputs, the testdata files and foreign streams from an independent bitstream emitter. Coq theorems prove, for all inputs, that the Go decoder's short-cuts equal the definitions (DC-only / 3-coefficient / full IDCT, WHT, 2-bit block code, clip tables, the three bool-decoder normalisations, dequantisation matrix, filter-strength table, simple / macroblock-edge / sub-block-edge filter arithmetic) and that the constant tables regenerated from the source are the RFC's.",
    "level_note": "Trusted: Coq kernel, extraction (ExtrOcamlBasic), OCaml glue, Go harness, translator, and the reading of RFC 6386 embodied in Vp8Spec (three points where the RFC's reference decoder and libwebp-derived decoders differ are modelled explicitly as switches and reported). The whole-frame equality Go = specification is checked by execution on generated streams, not proved; the ALPH clause of C04 is covered under coq/theories/Alpha (C07 builder).",
    "technique": "executable Gallina specification decoder (RFC 6386) + Rocq proofs of kernel refinements and finite complete sweeps; extraction-based differential execution against the Go decoder incl. an independent foreign-stream emitter",
    "notes": [
        "theorem C04_bool_roundtrip (full, no length bound, carries included): for every list of (bit, probability) pairs, the bytes of the Go BoolWriter model (range_/value/run/nbBits, flush with carry propagation through pending 0xff bytes, PutBit, Finish = 9-nbBits zero bits + forced flush), followed by any number of zero bytes, are decoded by the RFC 6386 decoder (Vp8Bool) to exactly those bits. Proof: Vp8BoolAbs (exact-integer interval coder; abs_roundtrip; the RFC 16-bit decoder refines it: rfc_refines_abs) + Vp8BoolEnc (the writer refines the abstract encoder: flush_rel incl. the carry cases, put_rel, finish_value; trailing zeros are irrelevant: rfc_bits_zeros). The writer model is tied to the code by the benc kernel cases (Go BoolWriter bytes vs model bytes on random / carry-forcing sequences, PutBits and PutSignedBits included).",
        "ALPH clause: case family alph (harness/c04/alph.go): foreign raw and lossless ALPH chunks x filters 0..3 x sizes incl. width/height 1, pre-processing bits, invalid compression, truncated / trailing raw data: lossy.DecodeAlpha and webp.Decode of VP8X+ALPH+VP8 files vs Conform.ConformFile.alpha_decode (coordinator's ALPH model with the VP8L specification decoder); colour samples of such files vs Vp8Rgb.decode_rgb (specification decoder + fancy upsampler with buildNRGBA's row pairing + YUV->RGB).",
        "filter-strength table: VerifLossyFilterStrengths vs model, complete sweep level 0..63 x sharpness 0..7 x delta extremes x segment configurations on every run (kernel cases fstr); foreign plans of class thr force final levels 1/14/15/16/39/40/41/63 with low-amplitude residuals.",
        "cases are written with the known deviation classes LAST, because bin/check turns only the first 50 spec mismatches into violations.",
        "theorems C04_syntax_roundtrip_partial / _bytes_partial: emitter of the fixed first-partition header (colour, clamp, segment header, filter header, partition bits, quantiser header; PutBits / PutSignedBits encodings) -> Vp8Syntax.parse_fixed_hdr returns the emitted fields, over abstract (bit, prob) streams (sync) and composed with the boolean-coder round trip.",
        "S side = Vp8Spec.decode (RFC reading); I side = Vp8Spec.decode_go = the same decoder with three switches set to what the Go code does (go_quirks): absolute-mode default of the segment header on key frames, single clamp of the filter level, inner-edge filtering decided by the mb_skip_coeff flag alone. When one of these is repaired in /repo, flip the corresponding field of Vp8Spec.go_quirks (the I side then follows) and drop the KNOWN_FINDINGS lines of that class.",
        "foreign streams: harness/c04/foreign.go is an independent bool-encoder + syntax emitter (RFC 6386 sections 7, 9, 11, 13) driven by random plans: absolute/delta segment quantisers and filter levels, simple filter with deltas, every 16x16/4x4/chroma mode, all token categories incl. cat6 extremes, explicit zero runs to position 16, 1..8 partitions, skip on/off, probability updates, versions 0..3. Plain plans stay inside the region where RFC reference decoder and libwebp-derived decoders agree; the classes segnoupd / midclamp / zeromb switch one deviation on each and are keyed separately.",
        "every stream is decoded twice on the Go side, through the dispatched kernels (what users get) and through the pure-Go kernels; where they differ (class simd16: exact IDCT/WHT intermediates beyond 16 bits) the portable result is checked against the specification as a case of its own and must match exactly.",
        "streams whose decoding needs bits beyond the end of a partition are rejected by the Go decoder (as by libwebp) while the RFC decoder reads zeros; both sides of the comparison print err for them (Vp8Spec tracks this as dc_past_end).",
        "GetSigned/fastSigned is exact except in the state range=255, which exists only before the first bool of a partition (theorem C04_bool_variants_agree, last two conjuncts).",
    ],
    "partial": [
        "syntax round trip: proved for the whole first-partition header (C04_syntax_roundtrip, probability updates and skip probability included) and for the coefficient tokens of a block (C04_tokens_roundtrip, C04_decode_block_roundtrip); also for the per-macroblock header with its mode contexts (C04_mb_header_roundtrip) and the residual data of a macroblock with its non-zero contexts (C04_residuals_roundtrip); NOT proved: the assembly over macroblock rows and token partitions (row_loop / rows_loop with one decoder per partition) and the layout bytes (frame tag, partition size table), so vp8_emit_decode for whole frames remains unproved. Not attempted: inline_coeffs_eq, row_filter_order_eq, single-macroblock no_drift step.",
        "not proved: vp8_emit_decode (emitter/decoder round trip over all syntaxes; the emitter lives in the Go harness, not in Coq), inline_coeffs_eq (getCoeffsInline with hoisted reader state = token-tree decoder) and row_filter_order_eq (row-by-row filtering = filter after full reconstruction): these are covered by differential execution of whole frames only. The ALPH clause (alpha filters, header) is handled under coq/theories/Alpha by the C07 builder.",
        "the specification keeps IDCT/WHT intermediates as exact integers (as libwebp's C code and the pure-Go kernels do) with 16-bit storage of dequantised coefficients and WHT outputs; RFC 6386's reference source narrows first-pass IDCT values to short - the two readings differ only for coefficient sets no encoder of 8-bit pictures produces.",
    ],
    "trusted_base": ["modelled, not verified: internal/lossy/decode*.go, internal/bitio/reader_bool.go, internal/dsp/{transforms,predict_lossy,filter,cliptables}.go (kernels modelled function by function; whole-frame behaviour tied by differential execution)"],
    "assumptions": ["Go int is 64-bit (IDCT intermediates do not wrap); coefficient storage is int16 as in MBData.Coeffs"],
    "case_key": _case_key,
    "proof_timeout": 2400,
}
