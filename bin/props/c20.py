"""C20 configuration for bin/check and bin/mkmanifest.py."""
CFG = {
   "ready": True,
   "env": {"GOMAXPROCS": "4"},   # cheaper runtime.GC() between encodes; parallel code paths stay enabled (>1)
   "level_text": "Proof: over the full EncoderOptions value space (every int field ranging over Z, both float32 fields over NaN / +-Inf / every finite value incl. -0 and subnormals, nil options, nil writer/image, any dimensions) the model of Encode's option handling never panics, fails exactly on the documented cases, hands the codecs only configurations inside their documented ranges, treats nil as DefaultOptions(), and resolves each documented sentinel (SNSStrength/FilterStrength/FilterType/QMax/Alpha* < 0, Segments/Pass <= 0) exactly like the documented default; lossy-only options never reach the lossless configuration; EmulateJpegSize and the Preset field change nothing; OptionsForPreset equals the documented table. The model interprets tables that the translator re-extracts from validateConfig, DefaultOptions, OptionsForPreset, resolve*, lossy.DefaultConfig and the propagation block of encodeLossyWithAlpha on every run, and a proof obligation equates them with the documented values. Model and code are compared on a complete pairwise covering of boundary / sentinel / extreme values, and every equivalence is also evaluated byte-for-byte on webp.Encode.",
   "level_note": "Trusted: Coq kernel, translator (AST walkers of tools/gosrc2v/funcs.go), extraction, OCaml glue, Go harness. The float32 dithering formula is not modelled (the amplitude is represented by the Quality it is computed from; the harness checks the float32 formula and its [0.5,1] range on every generated value). The hook replicates the inline propagation statements; the translator checks on every run that the replicas are verbatim copies. What the codecs do with a configuration is outside this property.",
   "technique": "Rocq proofs over an interpreter of source-extracted option tables (validation atoms, defaults, presets, propagation conditions), proof obligations against the frozen documented values; extraction-based correspondence with the effective configuration of the Go code; byte-level evaluation of every documented equivalence on webp.Encode",
   "notes": [
     "all nine documented sentinels hold (proved for every option value); none is refuted on the pinned tree",
     "doc inconsistency (no behavioural effect): the comment of resolveAlphaCompression says the zero value maps to 1, the code (and the public doc of AlphaCompression: 0 = no compression) maps 0 to 0",
     "byte comparisons are made on fresh encoder state (two GC cycles empty the sync.Pools before each encode): history independence is property C11's subject",
   ],
   "trusted_base": ["modelled, not verified: encode.go Encode / validateConfig / DefaultOptions / OptionsForPreset / resolve* / encodeLossyWithAlpha (propagation block, alpha-option mapping) / encodeLossless (lcfg), internal/lossy/encode.go DefaultConfig, internal/lossless/encode.go Encode (dimension check)",
                    "/repo/verif_export_opts.go replicates the inline propagation statements (verbatim-copy check by the translator on every run)"],
   "assumptions": ["float32 -> int conversion truncates toward zero for finite in-range values (Go spec); float32 comparisons with 0 and 100 are exact"],
   "partial": [],
 }
