"""Per-property configuration: one module per property (cXX.py) exporting CFG.

CFG keys: level_text, level_note, technique (MANIFEST); notes, partial, trusted_base,
assumptions (evidence); env, proof_timeout, harness_timeout {quick,thorough},
model_timeout, case_key(case_line, kind) -> violation key.
"""
import importlib, os, pkgutil

PROPS = {}
for _m in pkgutil.iter_modules([os.path.dirname(__file__)]):
    if _m.name.startswith("c") and _m.name[1:].isdigit():
        PROPS[_m.name] = importlib.import_module("props." + _m.name).CFG

# properties not claimed, each {"property_id": "Cxx", "reason": "..."}
NOT_APPLICABLE = []
# commits in /repo that add verif-tagged hooks
HOOK_COMMITS = []
