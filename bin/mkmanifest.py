#!/usr/bin/env python3
"""Regenerate MANIFEST.json from bin/props.py (single source of truth)."""
import json, os, sys
VERIF = os.path.dirname(os.path.dirname(os.path.abspath(__file__)))
sys.path.insert(0, os.path.join(VERIF, "bin"))
import subprocess
from props import PROPS, NOT_APPLICABLE, HOOK_COMMITS
try:
    HOOK_COMMITS = subprocess.run(["git", "-C", "/repo", "log", "--format=%h %s", "--grep=^verif:"], capture_output=True, text=True).stdout.strip().split("\n")
except Exception:
    pass

checks = []
for pid in sorted(PROPS):
    c = PROPS[pid]
    if not c.get("ready"):
        continue
    ID = pid.upper()
    checks.append({
        "property_id": ID,
        "quick_cmd": "bin/check %s --tier quick" % pid,
        "thorough_cmd": "bin/check %s --tier thorough" % pid,
        "evidence_file": "/verif/evidence/%s.json" % ID,
        "replay_cmd_template": "bin/check %s --replay {path}" % pid,
        "engine": "rocq-proof+correspondence",
        "level_claimed": {"category": "proof", "text": c["level_text"], "design_ref": c.get("design_ref", "DESIGN.md §7 " + ID)},
        "level_note": c["level_note"],
        "technique": c.get("technique", "machine-checked proof in Rocq (Coq 8.16.1) over an executable Gallina model + correspondence check against the Go code"),
    })
na = list(NOT_APPLICABLE)
for i in range(1, 21):
    ID = "C%02d" % i
    if not PROPS.get(ID.lower(), {}).get("ready") and not any(x["property_id"] == ID for x in na):
        na.append({"property_id": ID, "reason": "check not built yet (work in progress; the design in DESIGN.md claims it)"})
m = {
    "version": 1,
    "setup_cmd": "bin/setup",
    "hooks": {
        "guard": "verif",
        "enable": "go build -tags verif (the harness in /verif/harness imports /repo through a replace directive)",
        "baseline_off_cmd": "cd /repo && go test -mod=mod -json -vet=off -count=1 -timeout 25m ./...",
        "source_commits": HOOK_COMMITS,
        "add_only": True,
    },
    "engines": [{
        "name": "rocq-proof+correspondence", "path": "/verif/coq, /verif/extract, /verif/harness, /verif/tools/gosrc2v, /verif/bin/check",
        "serves_properties": [p.upper() for p in sorted(PROPS) if PROPS[p].get("ready")],
        "kind_free_text": "Coq 8.16.1 theorems over executable Gallina models; models tied to /repo on every run by a translator (tools/gosrc2v -> coq/Gen/*.v, re-checked obligations) and by a correspondence check (extracted OCaml models vs the Go implementation on generated cases); direct property evaluation as the search for a failing input",
    }],
    "checks": checks,
    "not_applicable": na,
    "notes": "All checks: exit 0 = held; exit 1 + 'VIOLATION property=<id> replay=<path>' (suffix no-failing-input-found when a proof obligation or the correspondence broke but no failing input was found). KNOWN_FINDINGS.txt lists recorded genuine defects and fix: commits.",
}
json.dump(m, open(os.path.join(VERIF, "MANIFEST.json"), "w"), indent=1)
print("MANIFEST.json: %d checks, %d not applicable" % (len(checks), len(NOT_APPLICABLE)))
